"""C05 — records stay in normal form."""
import datetime

from harness import common, worldprop, impl as I
from harness.content import strict_value

PROP = "C05"
PROVU = "http://www.w3.org/ns/prov#"

TRUSTED_BASE = [
    "Coq 8.16.1 kernel (coqc); vm_compute for Examples/_refuted witnesses; no native_compute",
    "model: coq/theories/Values.v, Record.v (add_attributes, _auto_literal_conversion, parse_xsd_types, set_time, "
    "factories through the generated table); tied to /repo by the correspondence run over API programs",
    "generated tables: PROV_ATTRIBUTE_QNAMES/LITERALS, FORMAL_ATTRIBUTES per class, XSD_DATATYPE_PARSERS, factory "
    "parameter->attribute maps read from the AST of ProvBundle (harness/gen_tables.py)",
    "float() and '%g' are an oracle table supplied by CPython; dateutil is modelled on the ISO-8601 subset only",
    "extraction: ExtrOcamlBasic + ExtrOcamlString; ocaml/driver.ml",
]
ASSUMPTIONS = [
    "Python set/dict semantics as modelled (insertion-ordered association lists; == and hash classes of values)",
    "not claimed (property text): the multi-member membership path (several prov:entity values in one call); the guard bypass it used to open for every other PROV attribute (finding C05-F1) is repaired in /repo (1eddd9a)",
]


def formal_uris():
    from prov.constants import PROV_ATTRIBUTE_QNAMES, PROV_ATTRIBUTE_LITERALS
    return ({a.uri for a in PROV_ATTRIBUTE_QNAMES}, {a.uri for a in PROV_ATTRIBUTE_LITERALS})


class C05Oracle(worldprop.Oracle):
    def all_records(self):
        for d in self.im.docs:
            for r in d._records:
                yield r
            for b in d._bundles.values():
                for r in b._records:
                    yield r

    def snap(self):
        out = {}
        for r in self.all_records():
            out[id(r)] = {k.uri: list(vs) for k, vs in r._attributes.items() if vs}
        return out

    def before(self, idx, op):
        self.prev = self.snap()

    def after(self, idx, op, ob):
        from prov.identifier import QualifiedName
        qn_attrs, time_attrs = formal_uris()
        for r in self.all_records():
            for k, vs in r._attributes.items():
                if not vs:
                    continue
                u = k.uri
                if u in qn_attrs or u in time_attrs:
                    if len(vs) > 1:
                        self.fail(idx, "formal attribute holds more than one value", attr=u, n=len(vs),
                                  last_op=op[0])
                    for v in vs:
                        if u in qn_attrs and not isinstance(v, QualifiedName):
                            self.fail(idx, "reference-valued formal attribute holds a non-QualifiedName", attr=u,
                                      value=repr(v))
                        if u in time_attrs and not isinstance(v, datetime.datetime):
                            self.fail(idx, "time-valued formal attribute holds a non-datetime", attr=u, value=repr(v))
            old = self.prev.get(id(r))
            if old is None:
                continue
            now = {k.uri: list(vs) for k, vs in r._attributes.items() if vs}
            for u, pv in old.items():
                nv = now.get(u, [])
                if u in qn_attrs or u in time_attrs:
                    if op[0] != "SetTime" and len(pv) == 1 and not (len(nv) >= 1 and any(x == pv[0] for x in nv)):
                        self.fail(idx, "a formal attribute value was replaced or dropped", attr=u,
                                  was=repr(pv[0]), now=repr(nv))
                else:
                    for x in pv:
                        if not any(x == y and type(x) == type(y) for y in nv):
                            self.fail(idx, "an attribute value disappeared", attr=u, was=repr(x))


def classify(f, ops):
    if f["what"] == "formal attribute holds more than one value":
        # guard bypass: some call up to here named prov:collection as a QualifiedName / Identifier
        for o in ops[:f["op"] + 1]:
            if o[0] in ("NewRecord", "AddAttrs"):
                attrs = o[4] if o[0] == "NewRecord" else o[2]
                for n, v in attrs:
                    if (n[0] == "Q" and n[2] + n[3] == PROVU + "collection") or (n[0] == "I" and n[1] == PROVU + "collection"):
                        return "C05-F1"
    return None


def path_independence():
    """A typed literal of a natively supported datatype is stored as the same Python
    value a direct assignment stores (one fixed table, every entry path)."""
    import prov.model as M
    from prov.identifier import Identifier
    from prov.constants import XSD_INT, XSD_LONG, XSD_DOUBLE, XSD_BOOLEAN, XSD_STRING, XSD_ANYURI, XSD_DATETIME
    import dateutil.parser
    table = [("12", XSD_INT, 12), ("-5", XSD_LONG, -5), ("10000000000000000000000", XSD_LONG, 10 ** 22),
             ("0.5", XSD_DOUBLE, 0.5), ("1e300", XSD_DOUBLE, 1e300), ("3", XSD_DOUBLE, 3.0),
             ("true", XSD_BOOLEAN, True), ("0", XSD_BOOLEAN, False), ("abc", XSD_STRING, "abc"), ("", XSD_STRING, ""),
             ("http://example.org/x", XSD_ANYURI, Identifier("http://example.org/x")),
             ("2012-03-31T09:21:00+01:00", XSD_DATETIME, dateutil.parser.parse("2012-03-31T09:21:00+01:00")),
             ("2012-03-31T09:21:00", XSD_DATETIME, datetime.datetime(2012, 3, 31, 9, 21))]
    fails = []
    n = 0
    for lex, dt, plain in table:
        for path in ("ctor", "add_attributes-dict", "add_attributes-list", "add_asserted_type"):
            d = M.ProvDocument()
            d.add_namespace("ex", "http://example.org/")
            lit = M.Literal(lex, dt)
            if path == "ctor":
                a = d.entity("ex:a", {"ex:k": lit}); b = d.entity("ex:b", {"ex:k": plain}); key = "ex:k"
            elif path == "add_attributes-dict":
                a = d.entity("ex:a"); a.add_attributes({"ex:k": lit}); b = d.entity("ex:b"); b.add_attributes({"ex:k": plain}); key = "ex:k"
            elif path == "add_attributes-list":
                a = d.entity("ex:a"); a.add_attributes([("ex:k", lit)]); b = d.entity("ex:b"); b.add_attributes([("ex:k", plain)]); key = "ex:k"
            else:
                a = d.entity("ex:a"); a.add_asserted_type(lit); b = d.entity("ex:b"); b.add_asserted_type(plain); key = "prov:type"
            va = sorted(strict_value(v) for v in a.get_attribute(key))
            vb = sorted(strict_value(v) for v in b.get_attribute(key))
            n += 1
            if va != vb:
                fails.append({"what": "typed literal and plain value are stored differently", "path": path,
                              "lexical": lex, "datatype": str(dt), "literal_stored": repr(va), "plain_stored": repr(vb)})
    return n, fails


def time_entry_paths():
    """An ISO time given as a string is stored as the same datetime through every entry path that accepts one (typed
    factory, convenience method, set_time, new_record, add_attributes), and re-adding it through another path is a no-op;
    the expected instant comes from datetime.fromisoformat, not from the library."""
    import prov.model as M
    from harness.progs import TIME_STRS, N_VALID_TIME_STRS
    fails = []
    n = 0

    def stored(r, name):
        return [(v.isoformat() if isinstance(v, datetime.datetime) else repr(v)) for v in r.get_attribute(name)]
    for s in TIME_STRS[:N_VALID_TIME_STRS] + ["2001-02-03T04:05:06.000007", "1999-12-11T10:09:08-03:00"]:
        want = datetime.datetime.fromisoformat(s.replace("Z", "+00:00"))
        paths = {}

        def doc():
            d = M.ProvDocument()
            d.add_namespace("ex", "http://example.org/")
            return d
        try:
            d = doc(); r = d.generation("ex:e", "ex:a", time=s); paths["factory"] = (r, "prov:time")
            d = doc(); r = d.activity("ex:a", startTime=s); paths["activity factory"] = (r, "prov:startTime")
            d = doc(); r = d.activity("ex:a"); r.set_time(s, None); paths["set_time"] = (r, "prov:startTime")
            d = doc(); e = d.entity("ex:e"); e.wasGeneratedBy("ex:a", time=s); paths["convenience method"] = (d.get_records()[-1], "prov:time")
            d = doc(); r = d.new_record(M.PROV_GENERATION, None, {M.PROV_ATTR_ENTITY: "ex:e", M.PROV_ATTR_TIME: s}); paths["new_record"] = (r, "prov:time")
            d = doc(); r = d.generation("ex:e", "ex:a"); r.add_attributes({M.PROV_ATTR_TIME: s}); paths["add_attributes"] = (r, "prov:time")
        except Exception as e:
            fails.append({"what": "an entry path refused a valid ISO time", "time": s, "exc": repr(e)[:200]})
            continue
        for name, (r, attr) in paths.items():
            n += 1
            got = list(r.get_attribute(attr))
            if len(got) != 1 or not isinstance(got[0], datetime.datetime) or got[0] != want or got[0].utcoffset() != want.utcoffset() \
                    or got[0].replace(tzinfo=None) != want.replace(tzinfo=None):
                fails.append({"what": "an ISO time string is stored as another datetime", "path": name, "time": s, "stored": stored(r, attr)})
        # the same time again through add_attributes is a no-op on every record
        for name, (r, attr) in paths.items():
            n += 1
            before = stored(r, attr)
            try:
                r.add_attributes({attr: s})
            except Exception as e:
                fails.append({"what": "re-adding the same time through add_attributes is refused", "first_path": name, "time": s, "exc": repr(e)[:200]})
                continue
            if stored(r, attr) != before:
                fails.append({"what": "re-adding the same time changed the record", "first_path": name, "time": s})
    return n, fails


def time_guard_pairs():
    """The single-value guard on a time-valued formal attribute, for every pair of times of a small family that mixes
    zones: same instant written in two zones (the same value: re-adding is a no-op), the same clock reading in two zones
    or with and without a zone (another value: refused with ProvException), given as datetime and as ISO string, through
    add_attributes (dictionary and pair list) on a record whose time came from the typed factory, the constructor or
    set_time.  What is 'the same value' comes from Python's own datetime equality, not from the library."""
    import prov.model as M
    tz = datetime.timezone
    td = datetime.timedelta
    fam = [datetime.datetime(2012, 3, 31, 12, 0), datetime.datetime(2012, 3, 31, 12, 0, tzinfo=tz.utc),
           datetime.datetime(2012, 3, 31, 12, 0, tzinfo=tz(td(hours=1))), datetime.datetime(2012, 3, 31, 11, 0, tzinfo=tz.utc),
           datetime.datetime(2012, 3, 31, 6, 30, tzinfo=tz(td(minutes=-330))), datetime.datetime(2012, 3, 31, 11, 0)]
    fails = []
    n = 0

    def fresh(how, t):
        d = M.ProvDocument()
        d.add_namespace("ex", "http://example.org/")
        if how == "factory":
            return d.activity("ex:a", startTime=t), M.PROV_ATTR_STARTTIME
        if how == "set_time":
            r = d.activity("ex:a"); r.set_time(t, None); return r, M.PROV_ATTR_STARTTIME
        return d.new_record(M.PROV_GENERATION, None, [(M.PROV_ATTR_ENTITY, "ex:e"), (M.PROV_ATTR_TIME, t)]), M.PROV_ATTR_TIME
    for t1 in fam:
        for t2 in fam:
            same = (t1 == t2)
            for how in ("factory", "set_time", "new_record"):
                for form in ("datetime", "string"):
                    for shape in ("dict", "pairs"):
                        n += 1
                        try:
                            r, attr = fresh(how, t1)
                        except Exception as e:
                            fails.append({"what": "a valid time was refused", "time": t1.isoformat(), "path": how, "exc": repr(e)[:200]})
                            continue
                        v = t2 if form == "datetime" else t2.isoformat()
                        arg = {attr: v} if shape == "dict" else [(attr, v)]
                        before = [x.isoformat() for x in r.get_attribute(attr)]
                        try:
                            r.add_attributes(arg)
                            raised = None
                        except M.ProvException as e:
                            raised = "ProvException"
                        except Exception as e:
                            raised = repr(e)[:200]
                        after = [x.isoformat() if isinstance(x, datetime.datetime) else repr(x) for x in r.get_attribute(attr)]
                        case = {"first": t1.isoformat(), "second": t2.isoformat(), "first_path": how, "second_as": form, "call": shape}
                        if same and raised is not None:
                            fails.append(dict(case, what="re-adding the same instant (written in another zone) is refused", exc=raised))
                        elif same and after != before:
                            fails.append(dict(case, what="re-adding the same instant changed the record", now=after))
                        elif not same and raised != "ProvException":
                            fails.append(dict(case, what="a second, different time was not refused with ProvException", got=raised, now=after))
                        elif not same and after != before:
                            fails.append(dict(case, what="a refused second time changed the record", now=after))
    return n, fails


def nontrivial(ops):
    return sum(1 for o in ops if o[0] in ("NewRecord", "Factory", "AddAttrs", "SetTime", "AddType")) >= 3


def fixed_programs():
    """one call that names a single-valued formal attribute twice — as the same QualifiedName, under two spellings, with
    different and with equal values — in new_record and in add_attributes on a record that does not hold it yet"""
    EXU = "http://example.org/"
    t1 = ["time", "2012", "3", "31", "9", "21", "0", "0", "none"]
    t2 = ["time", "2012", "3", "31", "9", "22", "0", "0", "none"]
    cases = [("Generation", "entity", ["str", "ex:e1"], ["str", "ex:e2"]),
             ("Usage", "activity", ["qn", "ex", EXU, "a1"], ["qn", "ex", EXU, "a2"]),
             ("Generation", "time", t1, t2), ("Activity", "startTime", t1, t2), ("Activity", "endTime", t1, ["str", "2012-03-31T09:22:00"]),
             ("Derivation", "usedEntity", ["str", "ex:e1"], ["str", "ex:e2"]),
             ("Association", "plan", ["str", "ex:p1"], ["str", "ex:p2"])]
    out = []
    for kind, a, v1, v2 in cases:
        q = ["Q", "prov", PROVU, a]
        sname = ["S", "prov:" + a]
        for k2 in (q, sname):
            for w in (v2, v1):
                head = [["NewDoc"], ["AddNs", ["d", "0"], "ex", EXU]]
                out.append(head + [["NewRecord", ["d", "0"], kind, ["S", "ex:r"], [[q, v1], [k2, w]]]])
                out.append(head + [["NewRecord", ["d", "0"], kind, ["S", "ex:r"], [[["S", "ex:k"], ["int", "1"]]]],
                                   ["AddAttrs", ["r", ["d", "0"], "0"], [[q, v1], [["S", "ex:k"], ["int", "2"]], [k2, w]]]])
    # one ISO time with day <= 12 (where a day/month mix-up shows) through every entry path that takes a time as a string:
    # typed factory, element convenience method, set_time, new_record, add_attributes; re-adding it is a no-op
    ts = ["str", "2012-03-04T05:06:07"]
    tq = ["Q", "prov", PROVU, "time"]
    head = [["NewDoc"], ["AddNs", ["d", "0"], "ex", EXU]]
    out.append(head + [["Factory", ["d", "0"], "generation", "none", [["entity", ["str", "ex:e"]], ["activity", ["str", "ex:a"]], ["time", ts]], []],
                       ["AddAttrs", ["r", ["d", "0"], "0"], [[tq, ts]]],
                       ["NewRecord", ["d", "0"], "Generation", "none", [[["Q", "prov", PROVU, "entity"], ["str", "ex:e"]], [["Q", "prov", PROVU, "activity"], ["str", "ex:a"]], [tq, ts]]]])
    out.append(head + [["Factory", ["d", "0"], "activity", ["S", "ex:a"], [["startTime", ts], ["endTime", ["str", "2013-10-02T00:00:00+02:00"]]], []],
                       ["AddAttrs", ["r", ["d", "0"], "0"], [[["Q", "prov", PROVU, "startTime"], ts]]],
                       ["SetTime", ["r", ["d", "0"], "0"], ts, ["str", "2013-10-02T00:00:00+02:00"]]])
    out.append(head + [["NewRecord", ["d", "0"], "Activity", ["S", "ex:a"], []],
                       ["SetTime", ["r", ["d", "0"], "0"], ts, "none"],
                       ["AddAttrs", ["r", ["d", "0"], "0"], [[["Q", "prov", PROVU, "startTime"], ts]]]])
    out.append(head + [["NewRecord", ["d", "0"], "Entity", ["S", "ex:e"], []],
                       ["ElemMethod", ["r", ["d", "0"], "0"], "wasGeneratedBy", [["activity", ["str", "ex:a"]], ["time", ts]], []],
                       ["AddAttrs", ["r", ["d", "0"], "1"], [[tq, ts]]]])
    # a call that re-supplies the value a formal attribute already holds (a no-op for that pair) and goes on: the pairs
    # after it are handled as if it had not been there — stored, refused, or no-ops in their own right
    for kind, a, v1, v2 in cases:
        q = ["Q", "prov", PROVU, a]
        other = {"entity": "activity", "activity": "entity", "time": "entity", "startTime": "endTime", "endTime": "startTime",
                 "usedEntity": "generatedEntity", "plan": "agent"}[a]
        qo = ["Q", "prov", PROVU, other]
        vo = t2 if other.endswith("ime") else ["str", "ex:o1"]
        vo2 = ["time", "2012", "3", "31", "9", "23", "0", "0", "none"] if other.endswith("ime") else ["str", "ex:o2"]
        for same in (v1, (["str", "2012-03-31T09:21:00"] if v1[0] == "time" else v1)):
            for shape in ("pairs", "dict"):
                head = [["NewDoc"], ["AddNs", ["d", "0"], "ex", EXU],
                        ["NewRecord", ["d", "0"], kind, ["S", "ex:r"], [[q, v1]]]]
                out.append(head + [["AddAttrs", ["r", ["d", "0"], "0"], [[q, same], [["S", "ex:k"], ["int", "1"]], [qo, vo], [["S", "ex:k2"], ["str", "z"]]]],
                                   ["AddAttrs", ["r", ["d", "0"], "0"], [[["S", "ex:k"], ["int", "2"]], [q, same], [qo, vo2], [["S", "ex:k3"], ["int", "3"]]]],
                                   ["AddAttrs", ["r", ["d", "0"], "0"], [[q, same], [qo, vo], [q, v2], [["S", "ex:k4"], ["int", "4"]]]]])
    # the single-value guard on times that mix zones: same instant in two zones (no-op), same clock reading in two zones
    # or with / without a zone (refused)
    zt = [["time", "2012", "3", "31", "12", "0", "0", "0", "none"], ["time", "2012", "3", "31", "12", "0", "0", "0", "0"],
          ["time", "2012", "3", "31", "12", "0", "0", "0", "60"], ["time", "2012", "3", "31", "11", "0", "0", "0", "0"],
          ["str", "2012-03-31T12:00:00+01:00"], ["str", "2012-03-31T11:00:00Z"], ["str", "2012-03-31T12:00:00"]]
    for a in zt[:4]:
        prog = [["NewDoc"], ["AddNs", ["d", "0"], "ex", EXU],
                ["NewRecord", ["d", "0"], "Activity", ["S", "ex:a"], [[["Q", "prov", PROVU, "startTime"], a]]]]
        for b in zt:
            prog.append(["AddAttrs", ["r", ["d", "0"], "0"], [[["Q", "prov", PROVU, "startTime"], b]]])
        out.append(prog)
    # names given as full URIs (string and Identifier) whose local part holds the namespace URI once more, or the
    # URI of another declared namespace: the name found must have exactly that URI
    for u in (EXU + "x/" + EXU + "y", EXU + EXU, EXU + "a?u=http://zz.test/b", "http://zz.test/" + EXU + "z"):
        for form in ("S", "I"):
            head = [["NewDoc"], ["AddNs", ["d", "0"], "ex", EXU], ["AddNs", ["d", "0"], "zz", "http://zz.test/"]]
            out.append(head + [["NewRecord", ["d", "0"], "Entity", [form, u], [[[form, u], ["int", "1"]]]]])
            out.append(head + [["NewRecord", ["d", "0"], "Entity", ["S", "ex:e"], [[["S", "ex:k"], ["id", u]]]],
                               ["NewRecord", ["d", "0"], "Usage", "none",
                                [[["Q", "prov", PROVU, "activity"], ["str", "ex:a"]], [["Q", "prov", PROVU, "entity"], [("str" if form == "S" else "id"), u]]]]])
    # one URI under one ordinary attribute as an xsd:anyURI value (Identifier; directly and as a typed literal) and as
    # a qualified name, in each order and through each entry path: the set accumulates both values — they are
    # different information (and print differently in every format)
    XSDU = "http://www.w3.org/2001/XMLSchema#"
    U = EXU + "foo"
    as_id, as_qn, as_lit = ["id", U], ["qn", "ex", EXU, "foo"], ["lit", U, ["qn", "xsd", XSDU, "anyURI"], "none"]
    k = ["S", "ex:k"]
    for first, second in ((as_id, as_qn), (as_qn, as_id), (as_lit, as_qn), (as_qn, as_lit)):
        head = [["NewDoc"], ["AddNs", ["d", "0"], "ex", EXU]]
        out.append(head + [["NewRecord", ["d", "0"], "Entity", ["S", "ex:e"], [[k, first], [k, second]]]])
        out.append(head + [["NewRecord", ["d", "0"], "Entity", ["S", "ex:e"], [[k, first]]],
                           ["AddAttrs", ["r", ["d", "0"], "0"], [[k, second]]],
                           ["AddAttrs", ["r", ["d", "0"], "0"], [[k, first]]]])
        out.append(head + [["NewRecord", ["d", "0"], "Usage", ["S", "ex:u"], [[["S", "prov:type"], first]]],
                           ["AddType", ["r", ["d", "0"], "0"], second]])
        out.append(head + [["NewRecord", ["d", "0"], "Entity", ["S", "ex:e"], [[k, first]]],
                           ["NewRecord", ["d", "0"], "Entity", ["S", "ex:e"], [[k, second]]],
                           ["EqRec", ["r", ["d", "0"], "0"], ["r", ["d", "0"], "1"]]])
    return out


def run(tier, seed, log, model_runs=True, enlarged=False):
    witness = [["NewDoc"], ["AddNs", ["d", "0"], "ex", "http://example.org/"],
               ["Factory", ["d", "0"], "membership", "none", [["collection", ["str", "ex:c"]], ["entity", ["str", "ex:e"]]], []],
               ["AddAttrs", ["r", ["d", "0"], "0"], [[["Q", "prov", PROVU, "collection"], ["str", "ex:c2"]]]]]
    res = worldprop.run(PROP, tier, seed, log, model_runs, enlarged, C05Oracle, ["records", "records", "mixed"],
                        n_quick=240, n_thorough=4000, classify=classify, nontrivial=nontrivial,
                        rule_text="API programs generated with the implementation in the loop (profile 'records': NewRecord/"
                                  "Factory/AddAttrs/SetTime/AddType over all 18 kinds, every argument representation, conflicting "
                                  "and identical re-adds, typed literals with valid and invalid lexical forms); non-trivial = >=3 "
                                  "record-building calls; distinct = distinct program text; plus the fixed entry-path table",
                        extra_cases=fixed_programs(),
                        theorem_note="C05_* over Record.add_attributes")
    n, fails = path_independence()
    n2, fails2 = time_entry_paths()
    n3, fails3 = time_guard_pairs()
    n += n2 + n3
    fails = fails + fails2 + fails3
    res["coverage"]["entry_path_cases"] = n
    for f in fails[:3]:
        res["violations"].append({"kind": "failing-input", "failure": f, "program": None})
    return res


def replay(path, log):
    return worldprop.replay(path, C05Oracle, log)
