"""C07 — PROV-O (RDF, TriG) round trip preserves the unified content of expressible documents."""
import json
import logging
import random
import time
import traceback
from collections import Counter

from harness import common, simpledocs
from harness.content import lc_doc
from harness.sexp import dumps, loads

PROP = "C07"
TRUSTED_BASE = [
    "Coq 8.16.1 kernel (coqc); vm_compute over finite domains (relation kind x formal attribute; relation shapes and pairs of "
    "shapes); no native_compute",
    "model: coq/theories/Rdf.v — the predicate logic of provrdf.py for qualified relations (the writer's cascade of substring "
    "tests, the reader's predicate_mapper + kind-dependent substring tests); coq/theories/Rdfq.v — the quad-level structure "
    "for relation records (binary triple, qualified node and what it carries, typed nodes, link from the subject, the fold of "
    "binary association/delegation triples as repaired). relation_mapper, predicate_mapper and every kind list the two "
    "functions test membership in are generated from /repo on every run (the model follows the source); "
    "coq/theories/RdfVal.v — the literal mapping both ways (encode_rdf_representation, literal_rdf_representation, "
    "decode_rdf_representation incl. what rdflib's lexical-to-Python conversion and prov's Literal.__init__ do to string, "
    "int, boolean, anyURI literals), the predicate an attribute of an element travels under and the name the reader files it "
    "under, then the record's insertion code. Bundles (named graphs), the assembly of elements and TriG are NOT modelled: "
    "they are decided by the direct round-trip oracle",
    "tie: for every relation kind and attribute the model's predicate is compared with the predicate in the implementation's "
    "graph; for every document of the shape sweep the model's graph is compared with the implementation's up to blank-node "
    "renaming (rdflib.compare.isomorphic, literals as tokens) and the model's decoded relations with the implementation's",
    "values are opaque tokens in Rdfq.v: the quad-level theorems quantify over the finite shape family, not over values "
    "(partial); the value-level theorems (RdfValProofs.v) quantify over all strings, integers, booleans, valid datetimes, "
    "URIs, qualified names, language-tagged strings and foreign literals, under the oracle law that rdflib hands back the "
    "term it was given (measured per run: the term in the parsed graph is compared with the model's)",
    "rdflib (TriG writer/parser, literal <-> Python value mapping, compute_qname, store iteration order) is trusted; the "
    "oracle re-runs the decoder on shuffled quad orders",
]
ASSUMPTIONS = ["documents from the claimed space only (harness/simpledocs.py implements the property's quantifier)",
               "comparison is set-based against unified() (RDF is a set of triples); only the default TriG syntax"]

PROVU = "http://www.w3.org/ns/prov#"
ELEMENT_LEVEL = True


def sc_doc(d):
    """set-based strict content: per bundle the set of records (kind, identifier URI, set of (attribute URI, value with
    its Python kind / datatype / language / offset)) — RDF is a set of triples, but the kind of every value counts"""
    from harness.content import content_doc

    def tup(x):
        if isinstance(x, list) and x and x[0] == "lit" and len(x) == 4 and isinstance(x[3], list) and x[3] and x[3][0] == "some":
            # RDF language tags are case-insensitive (RDF 1.1 Concepts 3.3: the value space is lower case; rdflib's terms
            # compare and hash that way, so one graph holding "x"@EN and "x"@en keeps one spelling): compared in lower case
            x = x[:3] + [["some", x[3][1].lower()]]
        return tuple(tup(y) for y in x) if isinstance(x, list) else x
    out = {}
    for b in content_doc(d)[1:]:
        out[b[1]] = frozenset((r[1], r[2], frozenset((a, tup(v)) for a, v in r[3])) for r in b[2:])
    return out


def roundtrip_case(d, rng, shuffles):
    """Returns list of failures for one document."""
    import prov.model as M
    from prov.serializers.provrdf import ProvRDFSerializer
    from rdflib import ConjunctiveGraph
    fails = []
    try:
        want = sc_doc(d.unified())
    except Exception as e:
        return [{"what": "unified() raised on a document of the claimed space", "exc": repr(e)[:200]}]
    try:
        text = d.serialize(format="rdf")
    except Exception as e:
        return [{"what": "serialize(format='rdf') raised", "exc": repr(e)[:300]}]
    try:
        d2 = M.ProvDocument.deserialize(content=text, format="rdf")
    except Exception as e:
        return [{"what": "reading back the emitted TriG raised", "exc": repr(e)[:300]}]
    got = sc_doc(d2)
    if got != want:
        diff = []
        for k in set(want) | set(got):
            a, b = want.get(k), got.get(k)
            if a != b:
                diff.append((k, [x[:2] for x in list((a or set()) - (b or set()))[:2]], [x[:2] for x in list((b or set()) - (a or set()))[:2]]))
        fails.append({"what": "RDF round trip does not yield the unified content", "diff": repr(diff)[:900]})
        return fails
    # any store iteration order: feed the decoder graphs built in shuffled quad order
    g = ConjunctiveGraph()
    g.parse(data=text, format="trig")
    quads = list(g.quads())
    nss = list(g.namespaces())
    for _ in range(shuffles):
        rng.shuffle(quads)
        g2 = ConjunctiveGraph()
        for p, u in nss:
            g2.bind(p, u)
        for s, p, o, c in quads:
            g2.get_context(c.identifier if hasattr(c, "identifier") else c).add((s, p, o))
        try:
            d3 = M.ProvDocument()
            ser = ProvRDFSerializer()
            ser.document = d3
            ser.decode_document(g2, d3)
            if sc_doc(d3) != want:
                fails.append({"what": "decoding the same quads in another order gives another document"})
                break
        except Exception as e:
            fails.append({"what": "decoding shuffled quads raised", "exc": repr(e)[:300]})
            break
    if fails:
        return fails
    # the same document after it has been looked at: the read accessors change nothing a writer may go by
    for c in [d] + list(d.bundles):
        for r in c.get_records():
            r.label, r.value, r.get_asserted_types(), r.get_attribute("prov:role"), r.args, r.formal_attributes, r.extra_attributes
            str(r), hash(r)
    try:
        d4 = M.ProvDocument.deserialize(content=d.serialize(format="rdf"), format="rdf")
        if sc_doc(d4) != want:
            fails.append({"what": "after the records have been inspected through read accessors the RDF round trip gives another document"})
    except Exception as e:
        fails.append({"what": "RDF round trip raised after the records had been inspected", "exc": repr(e)[:300]})
    return fails


SOFT_KINDS = ("Attribution", "Communication", "Delegation", "Influence", "Specialization", "Alternate", "Membership")


def shape_sweep(tier):
    """The systematic family: every relation kind x identified/anonymous x subset of optional formal arguments x kind of extra
    attribute, alone and as a pair on one subject (same or different object), restricted to the property's quantifier.
    Yields (description, document)."""
    import datetime
    import itertools
    import prov.model as M
    from prov.identifier import Namespace
    EX = Namespace("ex", "http://example.org/")
    T = datetime.datetime(2012, 3, 31, 9, 21)
    extras = [None, [(M.PROV["role"], EX["r"])], [(EX["k"], "v")], [(M.PROV["label"], "l"), (EX["n"], 5)], [(M.PROV["type"], EX["MyType"])]]
    kinds = [(t, cls) for t, cls in M.PROV_REC_CLS.items() if issubclass(cls, M.ProvRelation) and t != M.PROV_MENTION]

    def shapes(t, cls):
        formals = list(cls.FORMAL_ATTRIBUTES)
        opt = formals[2:]
        soft = t.localpart in SOFT_KINDS
        for ident in (False, True):
            if ident and t == M.PROV_ALTERNATE:
                continue                      # known finding C07-F2
            masks = list(itertools.product([False, True], repeat=len(opt)))
            for mask in masks:
                for ex in extras:
                    attributed = any(mask) or ex is not None
                    if not ident and soft and attributed:
                        continue              # outside the quantifier
                    if t in (M.PROV_SPECIALIZATION, M.PROV_ALTERNATE, M.PROV_MEMBERSHIP) and attributed and not ident:
                        continue
                    yield (ident, mask, ex)

    def add(d, t, cls, n, shape, subj, obj):
        ident, mask, ex = shape
        formals = list(cls.FORMAL_ATTRIBUTES)
        fa = {formals[0]: subj, formals[1]: obj}
        for a, on in zip(formals[2:], mask):
            if on:
                fa[a] = T if a in M.PROV_ATTRIBUTE_LITERALS else EX["opt_" + a.localpart]
        d.new_record(t, EX["rel%d" % n] if ident else None, fa, ex)

    for t, cls in kinds:
        sh = list(shapes(t, cls))
        for shp in sh:
            d = M.ProvDocument(); d.add_namespace(EX)
            add(d, t, cls, 0, shp, EX["s"], EX["o"])
            yield ("%s %r" % (t.localpart, shp), d)
        pairs = list(itertools.product(sh, sh))
        if tier == "quick":
            pairs = pairs[::7]
        for s1, s2 in pairs:
            if s1[0] != s2[0]:
                continue                       # a subject does not carry an identified and an anonymous relation of one kind
            for same_obj in (True, False):
                d = M.ProvDocument(); d.add_namespace(EX)
                add(d, t, cls, 0, s1, EX["s"], EX["o"])
                add(d, t, cls, 1, s2, EX["s"], EX["o"] if same_obj else EX["o2"])
                yield ("%s pair %r %r same_obj=%s" % (t.localpart, s1, s2, same_obj), d)


def value_pair_docs():
    """fixed documents: two attributes of one entity (and of two entities) holding values that compare equal or print
    alike but differ in kind — 1/True, 0/False, '1'/1, a URI and a qualified name for the same URI, a string and a
    language-tagged string, two datetimes denoting one instant in different zones"""
    import datetime
    import itertools
    import prov.model as M
    from prov.identifier import Identifier, Namespace
    EX = Namespace("ex", "http://example.org/")
    tz = datetime.timezone
    vals = [1, True, 0, False, "1", "true", "True", "", Identifier("http://example.org/x"), EX["x"], "http://example.org/x",
            M.Literal("x", langtag="en"), "x",
            datetime.datetime(2012, 3, 31, 9, 21, tzinfo=tz.utc),
            datetime.datetime(2012, 3, 31, 11, 21, tzinfo=tz(datetime.timedelta(hours=2))),
            datetime.datetime(2012, 3, 31, 9, 21)]
    for a, b in itertools.permutations(range(len(vals)), 2):
        if a > b and type(vals[a]) is type(vals[b]):
            continue
        d = M.ProvDocument(); d.add_namespace(EX)
        d.entity(EX["e1"], [(EX["p"], vals[a]), (EX["q"], vals[b])])
        d.entity(EX["e2"], [(EX["p"], vals[b])])
        yield ("value pair %r / %r" % (vals[a], vals[b]), d)
    # the same pairs under ONE attribute, where a Python set keeps both (values that are not == , and a URI next to the
    # qualified name of that URI, which are == but hash differently): on an element, on an identified and on an anonymous
    # relation, at document level and in a bundle, in both insertion orders
    def coexist(x, y):
        s_ = set(); s_.add(x); s_.add(y)
        return len(s_) == 2
    for a, b in itertools.permutations(range(len(vals)), 2):
        x, y = vals[a], vals[b]
        if isinstance(x, datetime.datetime) or isinstance(y, datetime.datetime) or not coexist(x, y):
            continue
        d = M.ProvDocument(); d.add_namespace(EX)
        bb = d.bundle(EX["b"])
        for c in (d, bb):
            c.entity(EX["e1"], [(EX["p"], x), (EX["p"], y), (EX["q"], "other")])
            c.activity(EX["a1"])
            c.used(EX["a1"], EX["e1"], identifier=EX["u1"], other_attributes=[(EX["p"], x), (EX["p"], y)])
            c.wasGeneratedBy(EX["e1"], EX["a1"], other_attributes=[(EX["p"], y), (EX["p"], x)])
        yield ("values %r and %r under one attribute" % (x, y), d)


def typed_element_docs():
    """fixed documents: elements whose prov:type names a PROV class — a subclass of the element's own kind (agent /
    Person), a subclass of another kind (an entity typed prov:Person, an activity typed prov:Plan), alone and next to a record that carries the same class legitimately, with
    and without relations that change the order in which the writer emits the subjects, at document level and in a bundle"""
    import itertools
    import prov.model as M
    from prov.identifier import Namespace
    EX = Namespace("ex", "http://example.org/")
    P = M.PROV
    # (the three base classes themselves are left out: in RDF `ex:x a prov:Entity, prov:Agent` is one set of rdf:type
    # triples, which cannot say which of the two is the kind and which the asserted type — not PROV-O-expressible)
    elems = [("agent", "alice", ["Person"]), ("entity", "record-of-bob", ["Person"]), ("activity", "planning", ["Plan"]),
             ("entity", "thing", ["SoftwareAgent"]), ("agent", "acme", ["Organization", "Plan"]), ("entity", "plan", ["Plan"]),
             ("activity", "act", ["Collection"]), ("entity", "coll", ["Collection", "Person"])]
    for k in (1, 2, 3):
        for combo in itertools.combinations(range(len(elems)), k):
            if k == 3 and combo[0] > 1:
                continue
            for in_bundle in (False, True):
                for rels in ((), ("attr",), ("attr", "used")):
                    if k == 1 and rels:
                        continue
                    d = M.ProvDocument(); d.add_namespace(EX)
                    c = d.bundle(EX["bundle"]) if in_bundle else d
                    made = []
                    for i in combo:
                        kind, name, types = elems[i]
                        r = getattr(c, kind)(EX[name], other_attributes=[("prov:type", P[t]) for t in types] + [(EX["n"], i)])
                        made.append((kind, r))
                    ents = [r for kd, r in made if kd == "entity"]
                    ags = [r for kd, r in made if kd == "agent"]
                    acts = [r for kd, r in made if kd == "activity"]
                    if "attr" in rels and ents and ags:
                        c.wasAttributedTo(ents[0], ags[0])
                    if "used" in rels and ents and acts:
                        c.used(acts[0], ents[0])
                    yield ("typed elements %s%s%s" % ("+".join(elems[i][1] for i in combo), " in a bundle" if in_bundle else "", " " + "+".join(rels) if rels else ""), d)


def cross_reference_docs():
    """fixed documents: relations whose optional arguments name OTHER relations of the same container — a derivation that
    names its generation and its usage (identified and anonymous derivation; the generation and usage declared as
    identified records, or merely named), a start and an end naming their trigger and starter / ender activities — at
    document level and in a bundle: every relation comes back exactly once, with its own endpoints"""
    import prov.model as M
    from prov.identifier import Namespace
    EX = Namespace("ex", "http://example.org/")
    for in_bundle in (False, True):
        for ident in (True, False):
            for declared in ("both", "generation", "usage", "none"):
                d = M.ProvDocument(); d.add_namespace(EX)
                c = d.bundle(EX["bundle"]) if in_bundle else d
                c.entity(EX["e1"]); c.entity(EX["e2"]); c.activity(EX["a"])
                if declared in ("both", "generation"):
                    c.wasGeneratedBy(EX["e2"], EX["a"], None, EX["g1"], {EX["k"]: 1})
                if declared in ("both", "usage"):
                    c.used(EX["a"], EX["e1"], None, EX["u1"], {"prov:role": "input"})
                c.wasDerivedFrom(EX["e2"], EX["e1"], EX["a"], EX["g1"], EX["u1"], EX["d"] if ident else None,
                                 {EX["k"]: "v"} if ident else None)
                yield ("derivation %s naming generation and usage (%s declared)%s" % ("ex:d" if ident else "anonymous", declared,
                                                                                     " in a bundle" if in_bundle else ""), d)
        d = M.ProvDocument(); d.add_namespace(EX)
        c = d.bundle(EX["bundle"]) if in_bundle else d
        c.activity(EX["a1"]); c.activity(EX["a2"]); c.entity(EX["t"])
        c.wasStartedBy(EX["a2"], EX["t"], EX["a1"], None, EX["s"], {EX["k"]: 1})
        c.wasEndedBy(EX["a2"], EX["t"], EX["a1"], None, EX["en"])
        c.wasInformedBy(EX["a2"], EX["a1"], EX["inf"], {EX["k"]: 2})
        yield ("start, end and communication between the same activities%s" % (" in a bundle" if in_bundle else ""), d)
    # bundles that hold plain binary relations only (their elements are declared at document level or in another bundle)
    for which in (("der",), ("used",), ("attr",), ("der", "used", "attr"), ("inf", "spec")):
        d = M.ProvDocument(); d.add_namespace(EX)
        d.entity(EX["e1"]); d.entity(EX["e2"]); d.activity(EX["a"]); d.activity(EX["a2"]); d.agent(EX["ag"])
        b1 = d.bundle(EX["only-relations"])
        if "der" in which:
            b1.wasDerivedFrom(EX["e2"], EX["e1"])
        if "used" in which:
            b1.used(EX["a"], EX["e1"])
        if "attr" in which:
            b1.wasAttributedTo(EX["e2"], EX["ag"])
        if "inf" in which:
            b1.wasInformedBy(EX["a2"], EX["a"])
        if "spec" in which:
            b1.specializationOf(EX["e2"], EX["e1"])
        b2 = d.bundle(EX["with-element"])
        b2.entity(EX["e3"]); b2.wasDerivedFrom(EX["e3"], EX["e1"])
        yield ("a bundle holding only the plain relations %s" % "+".join(which), d)


def rel_descriptors(d):
    """the relation records of a (bundle-free) document as the quad-level model sees them"""
    import datetime
    import prov.model as M
    from prov.identifier import QualifiedName

    def o(v):
        if isinstance(v, QualifiedName):
            return ["u", v.uri]
        if isinstance(v, datetime.datetime):
            return ["l", "t:"]
        if isinstance(v, bool):
            return ["l", "b:" + str(v)]
        if isinstance(v, int):
            return ["l", "i:%d" % v]
        return ["l", "s:" + str(v)]
    out = []
    for r in d.get_records():
        if not r.is_relation():
            continue
        fa = [o(v) if v is not None else "none" for _, v in r.formal_attributes]
        out.append(["rel", r.get_type().localpart, r.identifier.uri if r.identifier is not None else "none", fa,
                    [[a.uri, o(v)] for a, v in r.extra_attributes]])
    return out


def canon_rel(x):
    return (x[1], x[2], tuple(tuple(f) if isinstance(f, list) else f for f in x[3]),
            frozenset((a, tuple(v)) for a, v in x[4]))


def structure_correspondence(docs):
    """model Rdfq.enc_all / dec vs the implementation: the graph written (up to blank-node renaming, literals as
    tokens) and the relations read back, for every document of the shape sweep"""
    import datetime
    import prov.model as M
    from rdflib import ConjunctiveGraph, Graph, URIRef, BNode, Literal
    from rdflib.compare import isomorphic
    reqs = [dumps(["rdfq"] + rel_descriptors(d)) for _, d in docs]
    outs = [loads(x) for x in common.run_model_batch(reqs)]
    bad = []

    def tok(l):
        v = l.toPython()
        if isinstance(v, datetime.datetime):
            return "t:"
        if isinstance(v, bool):
            return "b:" + str(v)
        if isinstance(v, int):
            return "i:%d" % v
        return "s:" + str(l)
    for (desc, d), out in zip(docs, outs):
        if not isinstance(out, list) or len(out) != 2:
            bad.append({"shape": desc, "model": str(out)[:200]})
            continue
        mtriples, mrels = out
        gm = Graph()

        def term(x):
            return URIRef(x[1]) if x[0] == "u" else (BNode("m" + x[1]) if x[0] == "b" else Literal(x[1]))
        for s_, p_, o_ in mtriples:
            gm.add((term(s_), URIRef(p_), term(o_)))
        text = d.serialize(format="rdf")
        gi0 = ConjunctiveGraph()
        gi0.parse(data=text, format="trig")
        gi = Graph()
        for s_, p_, o_ in gi0.triples((None, None, None)):
            gi.add((s_, p_, Literal(tok(o_)) if isinstance(o_, Literal) else o_))
        if not isomorphic(gm, gi):
            bad.append({"shape": desc, "what": "the graph written differs from the model's",
                        "model_only": sorted(str(t) for t in (gm - gi))[:6], "implementation_only": sorted(str(t) for t in (gi - gm))[:6]})
            continue
        d2 = M.ProvDocument.deserialize(content=text, format="rdf")
        got = {canon_rel(x) for x in rel_descriptors(d2)}
        want = {canon_rel(x) for x in mrels}
        if got != want:
            bad.append({"shape": desc, "what": "the relations read back differ from the model's",
                        "model_only": [str(x)[:300] for x in (want - got)][:3],
                        "implementation_only": [str(x)[:300] for x in (got - want)][:3]})
    return len(docs), bad


def predicate_correspondence():
    """model Rdf.enc_pred / dec_pred vs the implementation, for every relation kind x attribute"""
    import datetime
    import prov.model as M
    from prov.identifier import Namespace
    from rdflib import ConjunctiveGraph, URIRef
    EX = Namespace("ex", "http://example.org/")
    cases, reqs = [], []
    for t, cls in M.PROV_REC_CLS.items():
        if not issubclass(cls, M.ProvRelation) or t == M.PROV_ALTERNATE:
            continue          # alternateOf has no qualified form (known finding C07-F2)
        kind = t.localpart
        formals = list(cls.FORMAL_ATTRIBUTES)
        attrs = formals[1:] + [M.PROV["role"], M.PROV["location"], M.PROV["label"], EX["k"]]
        for a in attrs:
            d = M.ProvDocument()
            d.add_namespace(EX)
            fa = {formals[0]: EX["s"], formals[1]: EX["o"]}
            if a in (M.PROV_ATTR_TIME,):
                v = datetime.datetime(2012, 3, 31, 9, 21)
            elif a in formals:
                v = EX["x"]
            else:
                v = "val"
            if a in formals:
                fa[a] = v
                other = None
            else:
                other = [(a, v)]
            try:
                d.new_record(t, EX["r"], fa, other)
                text = d.serialize(format="rdf")
                g = ConjunctiveGraph()
                g.parse(data=text, format="trig")
                preds = {str(p) for s, p, o in g.triples((URIRef(EX["r"].uri), None, None))}
                d2 = M.ProvDocument.deserialize(content=text, format="rdf")
                recs = [r for r in d2.get_records() if r.identifier is not None and r.identifier.uri == EX["r"].uri]
                back = {x.uri for x, _ in recs[0].attributes} if recs else set()
            except Exception as e:
                cases.append((kind, a.uri, None, None, repr(e)[:200]))
                reqs.append(dumps(["rdfpred", kind, a.uri]))
                continue
            cases.append((kind, a.uri, preds, back, None))
            reqs.append(dumps(["rdfpred", kind, a.uri]))
    outs = [loads(x) for x in common.run_model_batch(reqs)]
    bad = []
    for (kind, a, preds, back, err), (enc, dec) in zip(cases, outs):
        if err is not None:
            bad.append({"kind": kind, "attribute": a, "implementation_error": err})
            continue
        if enc not in preds:
            bad.append({"kind": kind, "attribute": a, "model_predicate": enc, "implementation_predicates": sorted(preds)})
        elif dec not in back:
            bad.append({"kind": kind, "attribute": a, "model_reads_as": dec, "implementation_reads_as": sorted(back)})
    return len(cases), bad


def value_correspondence():
    """model RdfVal (rdf_encode, enc_elem_pred, rdf_decode, dec_elem_name + insertion) vs the implementation: one
    attribute of an entity, for every attribute name of interest x every value of the claimed kinds (and Literal
    objects with foreign datatypes): the predicate and the term in the graph written, and the (name, value) read back"""
    import datetime
    import prov.model as M
    from harness import impl as I
    from prov.identifier import Identifier, Namespace
    from rdflib import ConjunctiveGraph, URIRef, Literal
    EXU, ZZU = "http://example.org/", "http://zz.test/ns#"
    EX, ZZ = Namespace("ex", EXU), Namespace("zz", ZZU)
    tz = datetime.timezone
    names = [EX["k"], ZZ["size"], EX["x/y"], M.PROV["type"], M.PROV["label"], M.PROV["location"], M.PROV["value"],
             M.PROV["role"], EX["k/" + EXU + "again"]]
    values = ["", "plain", "two\nlines", 'quo"te', "ünï \U0001F600", "1", "true", "ex:e", "http://example.org/e",
              0, 1, -7, 2 ** 31, 10 ** 40, True, False,
              datetime.datetime(2012, 3, 31, 9, 21), datetime.datetime(2012, 3, 31, 9, 21, 0, 5, tzinfo=tz.utc),
              datetime.datetime(1999, 12, 31, 23, 59, 59, 999999, tzinfo=tz(datetime.timedelta(minutes=330))),
              datetime.datetime(2024, 2, 29, 0, 0, tzinfo=tz(datetime.timedelta(minutes=-480))),
              Identifier("http://u/x"), Identifier("urn:a:b"), Identifier(EXU + "e"), Identifier("x y"),
              EX["e"], ZZ["T"], EX["x/y"], M.PROV["Person"], M.PROV["Plan"], M.XSD["int"], EX["a/" + EXU + "b"],
              M.Literal("x", langtag="en"), M.Literal("deux", langtag="fr-CA"),
              M.Literal("abc", EX["MyType"]), M.Literal("05", ZZ["T"]), M.Literal("x", M.XSD_QNAME),
              M.Literal("7", M.XSD["int"]), M.Literal("TRUE", M.XSD["boolean"]), M.Literal("u", M.XSD["anyURI"])]
    cases, reqs = [], []
    for a in names:
        for v in values:
            d = M.ProvDocument()
            d.add_namespace(EX); d.add_namespace(ZZ)
            try:
                e = d.entity(EX["e0"], [(a, v)])
            except Exception:
                continue
            stored = [x for n, x in e.attributes]
            if len(stored) != 1:
                continue
            stored = stored[0]
            try:
                text = d.serialize(format="rdf")
                g = ConjunctiveGraph()
                g.parse(data=text, format="trig")
                trip = [(p_, o_) for s_, p_, o_ in g.triples((URIRef(EXU + "e0"), None, None))
                        if not (str(p_).endswith("#type") and str(o_) == M.PROV["Entity"].uri)]
                nss = [[p_, str(u_)] for p_, u_ in g.namespaces()]
                d2 = M.ProvDocument.deserialize(content=text, format="rdf")
                back = [(n.uri, I.sx_value(x)) for r in d2.get_records() for n, x in r.attributes]
                err = None
            except Exception as ex_:
                trip, nss, back, err = [], [], [], type(ex_).__name__ + ": " + str(ex_)[:200]
            claimed = not isinstance(stored, float) and not (isinstance(stored, M.Literal) and not stored.langtag)
            direct = [[a.uri, I.sx_value(stored)]] if claimed else None
            cases.append((a.uri, repr(v)[:80], trip, back, err, direct, d.get_provn()))
            reqs.append(dumps(["rdfattr", nss, I.sx_qn(a), I.sx_value(stored)]))
    outs = [loads(x) for x in common.run_model_batch(reqs)]
    bad = []
    stats = Counter()

    def term(o_):
        if isinstance(o_, Literal):
            return ["lit", str(o_), ["some", str(o_.datatype)] if o_.datatype is not None else "none",
                    ["some", o_.language] if o_.language is not None else "none"]
        return ["uri", str(o_)]

    def strip_ns(x):
        """a qualified name by its URI only (which namespace object names it is the manager's choice)"""
        if isinstance(x, list) and len(x) == 4 and x[0] == "qn":
            return ["qn-uri", x[2] + x[3]]
        if isinstance(x, list):
            return [strip_ns(y) for y in x]
        return x
    fails = []
    for (a, v, trip, back, err, direct, provn), out in zip(cases, outs):
        # the direct oracle on the same cases: a value of the claimed kinds comes back, under the same attribute URI
        if direct is not None:
            if err is not None:
                fails.append({"what": "RDF round trip of one attribute raised", "attribute": a, "value": v, "exc": err, "provn": provn})
            elif [[n, strip_ns(x)] for n, x in back] != [[direct[0][0], strip_ns(direct[0][1])]]:
                fails.append({"what": "RDF round trip of one attribute does not give the attribute back", "attribute": a, "value": v,
                              "written": [direct[0][0], strip_ns(direct[0][1])], "read": [[n, strip_ns(x)] for n, x in back], "provn": provn})
        if out == "ood":
            stats["outside the model"] += 1
            continue
        if not isinstance(out, list) or len(out) != 3:
            bad.append({"attribute": a, "value": v, "model": str(out)[:200]})
            continue
        mpred, mterm, mback = out
        if err is not None:
            if isinstance(mback, list) and mback[0] == "raise":
                stats["both raise"] += 1
            elif mback == "ood":
                stats["outside the model"] += 1
            else:
                bad.append({"attribute": a, "value": v, "implementation_error": err, "model": str(mback)[:200]})
            continue
        if len(trip) != 1:
            bad.append({"attribute": a, "value": v, "what": "the implementation wrote %d triples for one value" % len(trip)})
            continue
        if str(trip[0][0]) != mpred or term(trip[0][1]) != mterm:
            bad.append({"attribute": a, "value": v, "what": "the triple written differs",
                        "model": [mpred, mterm], "implementation": [str(trip[0][0]), term(trip[0][1])]})
            continue
        if mback == "ood":
            stats["reading outside the model"] += 1
            continue
        want = [[mback[1][2] + mback[1][3], strip_ns(mback[2])]] if mback[0] == "ok" else []
        got = [[n, strip_ns(x)] for n, x in back]
        if want != got:
            bad.append({"attribute": a, "value": v, "what": "the attribute read back differs", "model": want, "implementation": got})
            continue
        stats["agree"] += 1
    return len(cases), bad, dict(stats), fails


def element_correspondence(tier, seed):
    """model RdfVal.rdf_element_triples / rdf_read_element vs the implementation: one element with several attributes
    (several values per attribute, every claimed value kind, prov:type / label / location / value and activity times):
    the triples written for the subject and the record read back"""
    import datetime
    import prov.model as M
    from harness import impl as I
    from prov.identifier import Identifier, Namespace
    from rdflib import ConjunctiveGraph, URIRef, Literal
    rng = random.Random(seed * 7919 + 13)
    EXU, ZZU = "http://example.org/", "http://zz.test/ns#"
    EX, ZZ = Namespace("ex", EXU), Namespace("zz", ZZU)
    tz = datetime.timezone
    names = [EX["k"], EX["k2"], ZZ["size"], EX["x/y"], M.PROV["type"], M.PROV["label"], M.PROV["location"], M.PROV["value"], EX["été"]]
    values = ["", "plain", "two\nlines", 'quo"te', "ünï \U0001F600", "1", "true", 0, 1, -7, 10 ** 20, True, False,
              datetime.datetime(2012, 3, 31, 9, 21), datetime.datetime(2012, 3, 31, 9, 21, 0, 5, tzinfo=tz.utc),
              datetime.datetime(1999, 12, 31, 23, 59, 59, 999999, tzinfo=tz(datetime.timedelta(minutes=330))),
              Identifier("http://u/x"), Identifier(EXU + "e"), EX["e"], ZZ["T"], EX["x/y"], EX["a/" + EXU + "b"],
              M.Literal("x", langtag="en"), M.Literal("deux", langtag="fr-CA"), M.Literal("abc", EX["MyType"])]
    n = 150 if tier == "quick" else 1500
    cases, reqs = [], []
    for i in range(n):
        kind = rng.choice(["Entity", "Agent", "Activity"])
        d = M.ProvDocument()
        d.add_namespace(EX); d.add_namespace(ZZ)
        attrs = []
        for _ in range(rng.choice([0, 1, 2, 3, 5])):
            a = rng.choice(names)
            v = rng.choice(values)
            if a == M.PROV["value"] and any(x == a for x, _ in attrs):
                continue
            attrs.append((a, v))
        if kind == "Activity":
            t1 = rng.choice([None, datetime.datetime(2012, 3, 31, 9, 21), datetime.datetime(2012, 4, 1, 0, 0, 1, tzinfo=tz.utc)])
            t2 = rng.choice([None, datetime.datetime(2013, 1, 1, 12, 0)])
            r = d.activity(EX["s%d" % i], t1, t2, attrs)
        else:
            r = d.new_record(M.PROV[kind], EX["s%d" % i], None, attrs)
        stored = [[I.sx_qn(a), I.sx_value(v)] for a, v in r.attributes]
        try:
            text = d.serialize(format="rdf")
            g = ConjunctiveGraph()
            g.parse(data=text, format="trig")
            trip = [(str(p_), o_) for s_, p_, o_ in g.triples((URIRef(EXU + "s%d" % i), None, None))]
            nss = [[p_, str(u_)] for p_, u_ in g.namespaces()]
            d2 = M.ProvDocument.deserialize(content=text, format="rdf")
            recs = list(d2.get_records())
            back = [[I.KIND_OF[type(x)], x.identifier.uri, sorted([[a.uri, I.sx_value(v)] for a, v in x.attributes], key=repr)] for x in recs]
            err = None
        except Exception as ex_:
            trip, nss, back, err = [], [], [], type(ex_).__name__ + ": " + str(ex_)[:200]
        cases.append((kind, d.get_provn(), trip, back, err))
        reqs.append(dumps(["rdfelem", nss, kind, I.sx_qn(EX["s%d" % i]), stored]))
    outs = [loads(x) for x in common.run_model_batch(reqs)]
    bad = []
    stats = Counter()

    def term(o_):
        if isinstance(o_, Literal):
            return ["lit", str(o_), ["some", str(o_.datatype)] if o_.datatype is not None else "none",
                    ["some", o_.language] if o_.language is not None else "none"]
        return ["uri", str(o_)]

    def strip_ns(x):
        if isinstance(x, list) and len(x) == 4 and x[0] == "qn":
            return ["qn-uri", x[2] + x[3]]
        if isinstance(x, list):
            return [strip_ns(y) for y in x]
        return x

    def canon(l):
        return sorted((json.dumps(x, sort_keys=True) for x in l))
    for (kind, provn, trip, back, err), out in zip(cases, outs):
        if out == "ood":
            stats["outside the model"] += 1
            continue
        if not isinstance(out, list) or len(out) != 2:
            bad.append({"document": provn[:600], "model": str(out)[:200]})
            continue
        mtrip, mback = out
        if err is not None:
            if isinstance(mback, list) and mback[0] == "raise":
                stats["both raise"] += 1
            else:
                bad.append({"document": provn[:600], "implementation_error": err, "model": str(mback)[:200]})
            continue
        cls = [x for x in trip if x[0].endswith("22-rdf-syntax-ns#type") and str(x[1]) == M.PROV[kind].uri]
        rest = list(trip)
        if cls:
            rest.remove(cls[0])
        itrip = canon([[p_, term(o_)] for p_, o_ in rest])
        mset = canon([json.loads(y) for y in {json.dumps(x) for x in mtrip}])       # a graph is a set of triples
        if itrip != mset:
            bad.append({"document": provn[:600], "what": "the triples written for the subject differ",
                        "model_only": [x for x in mset if x not in itrip][:3], "implementation_only": [x for x in itrip if x not in mset][:3]})
            continue
        if mback == "ood":
            stats["reading outside the model"] += 1
            continue
        if mback[0] != "ok":
            bad.append({"document": provn[:600], "what": "the model's reader refuses", "model": str(mback)[:200]})
            continue
        mrec = mback[1]        # ["rec", kind, id qn, [[attr qn, [values]] ...]]
        mattrs = sorted([[a[2] + a[3], strip_ns(v)] for a, vs in mrec[3] for v in vs], key=repr)
        want = [[mrec[1], mrec[2][2] + mrec[2][3], mattrs]]
        got = [[k_, u_, sorted([[a_, strip_ns(v_)] for a_, v_ in at_], key=repr)] for k_, u_, at_ in back]
        if want != got:
            bad.append({"document": provn[:600], "what": "the record read back differs", "model": want, "implementation": got})
            continue
        stats["agree"] += 1
    return len(cases), bad, dict(stats)


CONTAINER_LEVEL = True       # switched on with the rdfelems request of the model driver


def elements_container_correspondence(tier, seed):
    """model RdfVal.rdf_element_blocks / rdf_read_elements vs the implementation: documents holding several elements and
    no relation (elements of all three kinds, asserted PROV subtypes such as prov:Person and prov:Plan, several records
    under one identifier, several values per attribute): the set of triples written and the set of records read back"""
    import datetime
    import prov.model as M
    from harness import impl as I
    from prov.identifier import Identifier, Namespace
    from rdflib import ConjunctiveGraph, URIRef, Literal
    rng = random.Random(seed * 104729 + 11)
    EXU, ZZU = "http://example.org/", "http://zz.test/ns#"
    EX, ZZ = Namespace("ex", EXU), Namespace("zz", ZZU)
    tz = datetime.timezone
    names = [EX["k"], EX["k2"], ZZ["size"], M.PROV["type"], M.PROV["label"], M.PROV["location"], M.PROV["value"]]
    values = ["", "plain", "two\nlines", "ünï", "1", 5, -7, 10 ** 20, True, False,   # (no 0 / 1 next to False / True: equal values share one slot of a value set; which survives follows the store order)
              
              datetime.datetime(2012, 3, 31, 9, 21), datetime.datetime(1999, 12, 31, 23, 59, 59, 999999, tzinfo=tz(datetime.timedelta(minutes=330))),
              Identifier("http://u/x"), EX["e"], ZZ["T"], M.Literal("x", langtag="en"), M.Literal("abc", EX["MyType"])]
    subtypes = {"Agent": ["Person", "Organization", "SoftwareAgent"], "Entity": ["Plan", "Collection", "EmptyCollection", "Bundle"], "Activity": []}
    n = 80 if tier == "quick" else 800
    cases, reqs = [], []
    for i in range(n):
        d = M.ProvDocument()
        d.add_namespace(EX); d.add_namespace(ZZ)
        recs = []
        used = {}
        for j in range(rng.choice([1, 2, 3, 4])):
            kind = rng.choice(["Entity", "Agent", "Activity"])
            ident = rng.choice(["s%d" % j, "s0"])
            if used.setdefault(ident, kind) != kind:
                continue                                  # each identifier names records of one kind
            attrs = []
            for _ in range(rng.choice([0, 1, 2, 3])):
                a = rng.choice(names)
                if a == M.PROV["value"] and any(x == a for x, _ in attrs):
                    continue
                attrs.append((a, rng.choice(values)))
            if subtypes[kind] and rng.random() < 0.4:
                attrs.append((M.PROV["type"], M.PROV[rng.choice(subtypes[kind])]))
            r = d.new_record(M.PROV[kind], EX[ident], None, attrs)
            recs.append([kind, I.sx_qn(r.identifier), [[I.sx_qn(a), I.sx_value(v)] for a, v in r.attributes]])
        if not recs:
            continue
        try:
            text = d.serialize(format="rdf")
            g = ConjunctiveGraph()
            g.parse(data=text, format="trig")
            trip = [(str(s_), str(p_), o_) for s_, p_, o_ in g]
            nss = [[p_, str(u_)] for p_, u_ in g.namespaces()]
            d2 = M.ProvDocument.deserialize(content=text, format="rdf")
            back = [[I.KIND_OF[type(x)], x.identifier.uri, sorted([[a.uri, I.sx_value(v)] for a, v in x.attributes], key=repr)] for x in d2.get_records()]
            err = None
        except Exception as ex_:
            trip, nss, back, err = [], [], [], type(ex_).__name__ + ": " + str(ex_)[:200]
        cases.append((d.get_provn(), trip, back, err))
        reqs.append(dumps(["rdfelems", nss, recs]))
    outs = [loads(x) for x in common.run_model_batch(reqs)]
    bad = []
    stats = Counter()

    def term(o_):
        if isinstance(o_, Literal):
            return ["lit", str(o_), ["some", str(o_.datatype)] if o_.datatype is not None else "none",
                    ["some", o_.language] if o_.language is not None else "none"]
        return ["uri", str(o_)]

    def strip_ns(x):
        if isinstance(x, list) and len(x) == 4 and x[0] == "qn":
            return ["qn-uri", x[2] + x[3]]
        if isinstance(x, list):
            return [strip_ns(y) for y in x]
        return x

    def canon(l):
        return sorted({json.dumps(x, sort_keys=True) for x in l})
    for (provn, trip, back, err), out in zip(cases, outs):
        if out == "ood":
            stats["outside the model"] += 1
            continue
        if not isinstance(out, list) or len(out) != 2:
            bad.append({"document": provn[:700], "model": str(out)[:200]})
            continue
        mtrip, mback = out
        if err is not None:
            if isinstance(mback, list) and mback[0] == "raise":
                stats["both raise"] += 1
            else:
                bad.append({"document": provn[:700], "implementation_error": err, "model": str(mback)[:200]})
            continue
        it, mt = canon([[s_, p_, term(o_)] for s_, p_, o_ in trip]), canon(mtrip)
        if it != mt:
            bad.append({"document": provn[:700], "what": "the triples written differ",
                        "model_only": [x for x in mt if x not in it][:3], "implementation_only": [x for x in it if x not in mt][:3]})
            continue
        if mback == "ood":
            stats["reading outside the model"] += 1
            continue
        if mback[0] != "ok":
            bad.append({"document": provn[:700], "what": "the model's reader refuses", "model": str(mback)[:200]})
            continue
        want = canon([[r[1], r[2][2] + r[2][3], sorted([[a[2] + a[3], strip_ns(v)] for a, vs in r[3] for v in vs], key=repr)] for r in mback[1:]])
        got = canon([[k_, u_, sorted([[a_, strip_ns(v_)] for a_, v_ in at_], key=repr)] for k_, u_, at_ in back])
        if want != got:
            bad.append({"document": provn[:700], "what": "the records read back differ", "model": want[:4], "implementation": got[:4]})
            continue
        stats["agree"] += 1
    return len(cases), bad, dict(stats)


def custom_name_finding():
    """C07-F1 witness: a custom attribute whose URI contains 'activity' on a communication"""
    import prov.model as M
    from prov.identifier import Namespace
    EX = Namespace("ex", "http://example.org/")
    d = M.ProvDocument()
    d.add_namespace(EX)
    d.activity(EX["a1"]); d.activity(EX["a2"])
    d.wasInformedBy(EX["a1"], EX["a2"], identifier=EX["c"], other_attributes={EX["activityLevel"]: "high"})
    d2 = M.ProvDocument.deserialize(content=d.serialize(format="rdf"), format="rdf")
    return lc_doc(d2) != lc_doc(d.unified())


def alternate_finding():
    """C07-F2 witness: an identified alternateOf with an attribute"""
    import prov.model as M
    from prov.identifier import Namespace
    EX = Namespace("ex", "http://example.org/")
    d = M.ProvDocument()
    d.add_namespace(EX)
    d.entity(EX["e1"]); d.entity(EX["e2"])
    d.new_record(M.PROV_ALTERNATE, EX["alt1"], {M.PROV_ATTR_ALTERNATE1: EX["e1"], M.PROV_ATTR_ALTERNATE2: EX["e2"]}, {EX["k"]: "v"})
    d2 = M.ProvDocument.deserialize(content=d.serialize(format="rdf"), format="rdf")
    return lc_doc(d2) != lc_doc(d.unified())


def scheme_prefix_docs():
    """C07-F3 family: a namespace declared under a prefix that is also the scheme of a URI in use"""
    import prov.model as M
    for prefix, uri, other in (("http", "http://www.w3.org/2011/http#", "http://example.org/"),
                               ("https", "http://example.org/tls#", "https://example.org/"),
                               ("urn", "http://example.org/urn#", "urn:uuid:")):
        d = M.ProvDocument()
        ex = d.add_namespace("ex", other)
        ns = d.add_namespace(prefix, uri)
        d.entity(ex["e"], [(ex["k"], ex["v"]), (ns["method"], "GET")])
        d.activity(ex["a"])
        d.wasGeneratedBy(ex["e"], ex["a"])
        yield ("prefix %s next to %s" % (prefix, other), d)


def scheme_prefix_finding():
    """C07-F3 witness: the documents of the family do not come back"""
    import prov.model as M
    bad = 0
    for _, d in scheme_prefix_docs():
        try:
            d2 = M.ProvDocument.deserialize(content=d.serialize(format="rdf"), format="rdf")
            bad += lc_doc(d2) != lc_doc(d.unified())
        except Exception:
            bad += 1
    return bad > 0


def run(tier, seed, log, model_runs=True, enlarged=False):
    logging.disable(logging.CRITICAL)
    t0 = time.time()
    rng = random.Random(seed)
    n = 320 if tier == "quick" else 2500
    if enlarged:
        n *= 3
    shuffles = 2 if tier == "quick" else 4
    violations = []
    sizes, kinds = Counter(), Counter()
    distinct = set()
    for i in range(n):
        d = simpledocs.simple_doc(rng)
        nrec = len(d.get_records()) + sum(len(b.get_records()) for b in d.bundles)
        sizes[nrec // 5 * 5] += 1
        for c in [d] + list(d.bundles):
            for r in c.get_records():
                kinds[r.get_type().localpart + ("+id" if (r.is_relation() and r.identifier is not None) else "")] += 1
        distinct.add(d.get_provn())
        try:
            fails = roundtrip_case(d, rng, shuffles)
        except Exception:
            violations.append({"kind": "harness-error", "what": "harness error", "detail": traceback.format_exc()[-1500:]})
            continue
        for f in fails:
            violations.append({"kind": "failing-input", "failure": f, "provn": d.get_provn()[:2500]})
    log("round-tripped %d documents (x%d shuffled decodings) in %.1fs" % (n, shuffles, time.time() - t0))
    t1 = time.time()
    nsweep = 0
    sweep_docs = []
    for desc, d in shape_sweep(tier):
        nsweep += 1
        sweep_docs.append((desc, d))
        try:
            fails = roundtrip_case(d, rng, 1)
        except Exception:
            violations.append({"kind": "harness-error", "what": "harness error", "detail": traceback.format_exc()[-1500:]})
            continue
        for f in fails:
            violations.append({"kind": "failing-input", "failure": dict(f, shape=desc), "provn": d.get_provn()[:2500]})
    log("shape sweep: %d documents in %.1fs" % (nsweep, time.time() - t1))
    npairs = 0
    for desc, d in value_pair_docs():
        npairs += 1
        try:
            fails = roundtrip_case(d, rng, 0)
        except Exception:
            violations.append({"kind": "harness-error", "what": "harness error", "detail": traceback.format_exc()[-1500:]})
            continue
        for f in fails:
            violations.append({"kind": "failing-input", "failure": dict(f, shape=desc), "provn": d.get_provn()[:2500]})
    log("value pairs: %d documents" % npairs)
    ntyped = 0
    for desc, d in typed_element_docs():
        ntyped += 1
        try:
            fails = roundtrip_case(d, rng, 1)
        except Exception:
            violations.append({"kind": "harness-error", "what": "harness error", "detail": traceback.format_exc()[-1500:]})
            continue
        for f in fails:
            violations.append({"kind": "failing-input", "failure": dict(f, shape=desc), "provn": d.get_provn()[:2500]})
    log("typed elements: %d documents" % ntyped)
    ncross = 0
    for desc, d in cross_reference_docs():
        ncross += 1
        try:
            fails = roundtrip_case(d, rng, 1)
        except Exception:
            violations.append({"kind": "harness-error", "what": "harness error", "detail": traceback.format_exc()[-1500:]})
            continue
        for f in fails:
            violations.append({"kind": "failing-input", "failure": dict(f, shape=desc), "provn": d.get_provn()[:2500]})
    log("relations naming other relations: %d documents" % ncross)
    disagreements = []
    npred = 0
    if model_runs:
        npred, bad = predicate_correspondence()
        log("predicate correspondence: %d kind x attribute cases, %d disagreements" % (npred, len(bad)))
        for b in bad[:2]:
            disagreements.append({"first_difference": json.dumps(b)[:900],
                                  "theorem": "correspondence Rdf.enc_pred / dec_pred ~ provrdf encode_container / decode_container"})
        t2 = time.time()
        nst, bad2 = structure_correspondence(sweep_docs)
        npred += nst
        log("structure correspondence: %d shape documents, %d disagreements in %.1fs" % (nst, len(bad2), time.time() - t2))
        for b in bad2[:2]:
            disagreements.append({"first_difference": json.dumps(b)[:1200],
                                  "theorem": "correspondence Rdfq.enc_all / dec ~ provrdf encode_container / decode_container "
                                             "(theorems rdfq_single_roundtrip, rdfq_pair_roundtrip are stated over the model)"})
        t3 = time.time()
        nval, bad3, vstats, vfails = value_correspondence()
        for f in vfails[:3]:
            violations.append({"kind": "failing-input", "failure": {k: f[k] for k in f if k != "provn"}, "provn": f["provn"][:2500]})
        npred += nval
        log("value correspondence: %d attribute x value cases, %d disagreements in %.1fs (%s)" % (nval, len(bad3), time.time() - t3, vstats))
        for b in bad3[:2]:
            disagreements.append({"first_difference": json.dumps(b, ensure_ascii=False)[:1200],
                                  "theorem": "correspondence RdfVal.rdf_encode / enc_elem_pred / rdf_attr_back ~ provrdf "
                                             "encode_rdf_representation / encode_container / decode_rdf_representation / decode_container "
                                             "(theorems C07_value_*, C07_attribute_roundtrip are stated over the model)"})
        t4 = time.time()
        nel, bad4, estats = element_correspondence(tier, seed) if ELEMENT_LEVEL else (0, [], {})
        npred += nel
        log("element correspondence: %d elements, %d disagreements in %.1fs (%s)" % (nel, len(bad4), time.time() - t4, estats))
        for b in bad4[:2]:
            disagreements.append({"first_difference": json.dumps(b, ensure_ascii=False)[:1400],
                                  "theorem": "correspondence RdfVal.rdf_element_triples / rdf_read_element ~ provrdf encode_container / "
                                             "decode_container for one element (theorem C07_element_roundtrip is stated over the model)"})
        if CONTAINER_LEVEL:
            t5 = time.time()
            nco, bad5, cstats = elements_container_correspondence(tier, seed)
            npred += nco
            log("element containers: %d documents, %d disagreements in %.1fs (%s)" % (nco, len(bad5), time.time() - t5, cstats))
            for b in bad5[:2]:
                disagreements.append({"first_difference": json.dumps(b, ensure_ascii=False)[:1400],
                                      "theorem": "correspondence RdfVal.rdf_element_blocks / rdf_read_elements ~ provrdf encode_container / "
                                                 "decode_container for containers of elements (theorem C07_elements_container is stated over the model)"})
    known = common.load_known_findings()
    known_lines = []
    witnesses = {"C07-F1": custom_name_finding, "C07-F2": alternate_finding, "C07-F3": scheme_prefix_finding}
    for k in known:
        if k["property"] == PROP and k["status"] == "open" and k["id"] in witnesses:
            try:
                if witnesses[k["id"]]():
                    known_lines.append("%s: %s" % (k["id"], k["what_fails"]))
            except Exception:
                known_lines.append("%s: %s" % (k["id"], k["what_fails"]))
    uniq = {}
    for v in violations:
        uniq.setdefault(json.dumps(v.get("failure", {}).get("what", v.get("what"))), v)
    coverage = {
        "evaluations": n * (1 + shuffles) + nsweep * 2,
        "shape_sweep_documents": nsweep,
        "distinct_nontrivial": len(distinct),
        "rule": "documents generated inside the property's quantifier (names in namespaces declared on the document, non-empty "
                "bundles, one kind per identifier, relations with their first two arguments, qualified and unqualified forms, no "
                "subject with both an identified and an anonymous relation of one kind, values: strings incl. non-ASCII, ints, "
                "booleans, datetimes, URIs, qualified names, language-tagged strings); each is written as TriG, read back and "
                "compared set-based with unified(); the decoder is re-run on graphs rebuilt in shuffled quad order; distinct = "
                "distinct PROV-N text; plus the systematic shape sweep: every relation kind x identified/anonymous x subset of optional "
                "formal arguments x kind of extra attribute (none, role, custom, label+int, custom type), alone and in pairs on "
                "one subject with the same or another object (quick: every 7th pair), restricted to the quantifier; plus documents "
                "holding pairs of values that compare equal or print alike but differ in kind (1/True, '1'/1, URI/qualified name, "
                "plain/language-tagged, one instant in two zones)",
        "samples": [simpledocs.simple_doc(random.Random(seed)).get_provn()[:1200]],
        "traces_validated_against_impl": npred,
        "disagreements_checked": len(disagreements),
        "exhaustive": False,
        "distribution": {"records_per_document_buckets": dict(sizes), "record_kinds": dict(kinds)},
    }
    return {"violations": list(uniq.values())[:4], "known": known_lines, "coverage": coverage, "disagreements": disagreements}


def replay(path, log):
    print(open(path).read()[:5000])
    return 0
