"""C18 — identifier lookup and typed listing always agree with the record list."""
import copy

from harness import worldprop, impl as I

PROP = "C18"
TRUSTED_BASE = [
    "Coq 8.16.1 kernel (coqc); vm_compute for Examples; no native_compute",
    "model: coq/theories/World.v keeps brecs and bidmap as separate fields updated only by add_rec_to "
    "(_add_record); Interp.step covers every insertion path (factories, new_record, add_record, update, add_bundle, "
    "constructor records, unified, flattened); tied to /repo by the correspondence run (records and _id_map compared "
    "after every call)",
    "generated tables: class hierarchy (rec_class_names) for get_records(cls)",
    "extraction: ExtrOcamlBasic + ExtrOcamlString; ocaml/driver.ml",
]
ASSUMPTIONS = [
    "defaultdict reads that insert empty entries are not content (ignored on both sides)",
    "deserialisation as an insertion path is covered by the C01/C02/C11 checks (a decoder is a program of new_record calls)",
]


class C18Oracle(worldprop.Oracle):
    def after(self, idx, op, ob):
        if op[0] in ("Eq", "EqRec", "GetRecord", "GetRecords", "Resolve"):
            return
        self.probe(idx)

    def probe(self, idx):
        import prov.model as M
        from prov.identifier import QualifiedName, Namespace, Identifier
        # typed listing with a tuple of classes (get_records takes "a class or a tuple of classes", like isinstance), on
        # the live containers — so that state an earlier listing may have left behind is there when records arrive
        tuples = [(M.ProvEntity, M.ProvAgent), (M.ProvActivity, M.ProvRelation), (M.ProvElement, M.ProvGeneration),
                  (M.ProvSpecialization, M.ProvMention, M.ProvUsage)]
        for di, d in enumerate(self.im.docs):
            for cname, c in [("d%d" % di, d)] + [("d%d/b%d" % (di, j), b) for j, b in enumerate(d._bundles.values())]:
                recs = c.get_records()
                for tp in tuples:
                    try:
                        got = list(c.get_records(tp))
                    except Exception as e:
                        self.fail(idx, "get_records(tuple of classes) raised", container=cname, exc=repr(e)[:200])
                        continue
                    want = [r for r in recs if isinstance(r, tp)]
                    if len(got) != len(want) or any(a is not b for a, b in zip(got, want)):
                        self.fail(idx, "get_records(tuple of classes) disagrees with the record list", container=cname,
                                  classes=[t.__name__ for t in tp], got=len(got), want=len(want))
        docs = copy.deepcopy(self.im.docs)
        for di, d in enumerate(docs):
            conts = [("d%d" % di, d)] + [("d%d/b%d" % (di, j), b) for j, b in enumerate(d._bundles.values())]
            for cname, c in conts:
                recs = c.get_records()
                # records is an independent copy
                lst = c.records
                lst.append("junk")
                if len(c.records) != len(recs) or any(a is not b for a, b in zip(c.records, recs)):
                    self.fail(idx, "records is not an independent copy of the record list", container=cname)
                uris = []
                for r in recs:
                    if r.identifier is not None and r.identifier.uri not in uris:
                        uris.append(r.identifier.uri)
                for u in uris[:6]:
                    expect = [r for r in recs if r.identifier is not None and r.identifier.uri == u]
                    q = expect[0].identifier
                    spellings = [("QualifiedName", QualifiedName(Namespace(q.namespace.prefix, q.namespace.uri), q.localpart)),
                                 ("QualifiedName-other-prefix", QualifiedName(Namespace("zq9", q.namespace.uri), q.localpart)),
                                 ("full-URI", u)]
                    # prefix:local and bare local only when they denote that URI in this container
                    for form, s in (("prefix:local", str(q)),):
                        cc = copy.deepcopy(c)
                        try:
                            r = cc.valid_qualified_name(s)
                        except Exception:
                            r = None
                        # ... judged by the rule itself as well (the prefix is what stands before the first colon; it is
                        # looked up in the container, then in its document), not only by the library's resolver
                        pfx = q.namespace.prefix
                        by_rule = False
                        if pfx and s == pfx + ":" + q.localpart:
                            nsx = dict.get(c._namespaces, pfx)
                            if nsx is None and c is not d:
                                nsx = dict.get(d._namespaces, pfx)
                            by_rule = nsx is not None and nsx.uri + q.localpart == u
                        # (only where the library's resolver finds no name at all: where it finds a name of another URI the
                        # prefix has two meanings in this scope — an alias memo of the container against a declaration of
                        # its document — which is C03's subject, not a look-up fault)
                        if (r is not None and r.uri == u) or (by_rule and r is None):
                            spellings.append((form, s))
                    for form, x in spellings:
                        cc = copy.deepcopy(c)
                        recs2 = cc.get_records()
                        try:
                            got = cc.get_record(x)
                        except Exception as e:
                            self.fail(idx, "get_record raised", container=cname, spelling=form, exc=repr(e))
                            continue
                        got = list(got) if got is not None else []
                        want = [r for r in recs2 if r.identifier is not None and r.identifier.uri == u]
                        if len(got) != len(want) or any(a is not b for a, b in zip(got, want)):
                            self.fail(idx, "get_record disagrees with the record list", container=cname, spelling=form,
                                      identifier=u, got=len(got), want=len(want),
                                      x=repr(x))
                # an absent identifier
                cc = copy.deepcopy(c)
                try:
                    got = cc.get_record(QualifiedName(Namespace("zq9", "http://absent.test/"), "nothing"))
                except Exception as e:
                    got = None
                    self.fail(idx, "get_record raised", container=cname, spelling="absent", exc=repr(e))
                if got:
                    self.fail(idx, "get_record returned records for an absent identifier", container=cname)
                # bare local names: they denote <effective default namespace> + local *now*, whatever any earlier
                # resolution of the same string gave (own default, else the enclosing document's)
                dflt = c._namespaces._default
                if dflt is None and c is not d:
                    dflt = d._namespaces._default
                locals_ = []
                for r in recs:
                    if r.identifier is not None and ":" not in r.identifier.localpart and r.identifier.localpart \
                            and r.identifier.localpart not in locals_:
                        locals_.append(r.identifier.localpart)
                for loc in locals_[:5]:
                    try:
                        got = c.get_record(loc)          # c is a deep copy taken now: memoised state comes along
                    except Exception as e:
                        self.fail(idx, "get_record raised", container=cname, spelling="bare-local", exc=repr(e))
                        continue
                    got = list(got) if got is not None else []
                    want = [r for r in recs if dflt is not None and r.identifier is not None
                            and r.identifier.uri == dflt.uri + loc]
                    if len(got) != len(want) or any(a is not b for a, b in zip(got, want)):
                        self.fail(idx, "get_record(bare local name) disagrees with the record list", container=cname,
                                  local=loc, default=(dflt.uri if dflt is not None else None), got=len(got), want=len(want))
                # identifiers of the sibling containers that this container does not hold
                own = set(uris)
                seen_sib = []
                for _, o in conts:
                    if o is c:
                        continue
                    for r in o.get_records():
                        if r.identifier is not None and r.identifier.uri not in own and r.identifier not in seen_sib:
                            seen_sib.append(r.identifier)
                for q in seen_sib[:5]:
                    for form, x in (("QualifiedName", QualifiedName(Namespace(q.namespace.prefix, q.namespace.uri), q.localpart)),
                                    ("full-URI", q.uri)):
                        cc = copy.deepcopy(c)
                        try:
                            got = cc.get_record(x)
                        except Exception as e:
                            self.fail(idx, "get_record raised", container=cname, spelling=form, exc=repr(e))
                            continue
                        if got:
                            self.fail(idx, "get_record returned records of another container", container=cname, spelling=form,
                                      identifier=q.uri, got=len(got))
                # typed listing
                for cn, cls in I.CLASS_BY_NAME.items():
                    got = list(c.get_records(cls))
                    want = [r for r in recs if cls in type(r).__mro__]
                    if len(got) != len(want) or any(a is not b for a, b in zip(got, want)):
                        self.fail(idx, "get_records(cls) disagrees with the record list", container=cname, cls=cn,
                                  got=len(got), want=len(want))


def classify(f, ops):
    if f["what"] == "get_record disagrees with the record list" and f.get("spelling") == "full-URI":
        # str.replace removes every occurrence of the namespace URI: a namespace URI that
        # re-occurs inside the local part
        u = f["identifier"]
        for o in ops:
            pass
        return "C18-F1" if f.get("quirk") else None
    return None


def nontrivial(ops):
    return sum(1 for o in ops if o[0] in ("NewRecord", "Factory", "AddRecord", "Update", "AddBundleDoc", "Unified",
                                          "Flattened", "DocFromRecords")) >= 3


def scoping_histories():
    """fixed programs: a bundle that resolves names through its document and then gets a default namespace of its own
    (explicitly, by update(), by a record carrying a prefix-less QualifiedName), with lookups in every spelling
    before and after"""
    U1, U2 = "http://example.org/one/", "http://example.org/two/"
    out = []
    b = ["b", "0", "0"]
    for doc_default in (None, U1):
        for how in ("update", "setdefault", "record", "none"):
            for early_lookup in (False, True):
                p = [["NewDoc"]]
                if doc_default:
                    p.append(["SetDefault", ["d", "0"], doc_default])
                p += [["AddNs", ["d", "0"], "ex", "http://example.org/ex/"], ["NewBundle", "0", ["S", "ex:b"]]]
                first = ["S", "a"] if doc_default else ["S", "ex:a"]
                p.append(["NewRecord", b, "Entity", first, []])
                p.append(["NewRecord", ["d", "0"], "Entity", first, []])
                if early_lookup:
                    p += [["GetRecord", b, ["S", "a"]], ["GetRecord", b, first], ["GetRecord", ["d", "0"], first]]
                if how == "update":
                    p += [["NewDoc"], ["SetDefault", ["d", "1"], U2], ["NewRecord", ["d", "1"], "Entity", ["S", "c"], []],
                          ["Update", b, ["d", "1"]]]
                elif how == "setdefault":
                    p.append(["SetDefault", b, U2])
                elif how == "record":
                    p.append(["NewRecord", b, "Entity", ["Q", "", U2, "c"], []])
                p += [["GetRecord", b, ["S", "a"]], ["GetRecord", b, ["S", "c"]], ["GetRecord", b, first],
                      ["GetRecord", b, ["S", (doc_default or "http://example.org/ex/") + "a"]],
                      ["NewRecord", b, "Entity", ["S", "a"], []], ["GetRecord", b, ["S", "a"]],
                      ["GetRecord", ["d", "0"], ["S", "a"]], ["GetRecord", ["d", "0"], first]]
                out.append(p)
    return out


def after_derivation_histories():
    """fixed programs: one identifier carried by records of several kinds, inserted in an order that is not the
    alphabetical order of the kinds (and with a second record of the first kind at the end), in a document and in a
    bundle; then each call that walks the index (unified, flattened, graph and text exports, update into another
    document) — the probe that follows every call compares get_record with the record list element by element"""
    EXU = "http://example.org/"
    out = []
    orders = [("Entity", "Agent", "Activity"), ("Entity", "Activity", "Agent", "Entity"), ("Agent", "Activity", "Agent"),
              ("Usage", "Entity", "Generation", "Activity")]
    walkers = [["Unified", "0"], ["ToGraph", "0"], ["GraphRoundTrip", "0"], ["Flattened", "0"], ["ExportJson", "0"],
               ["ExportProvn", "0"]]
    for in_bundle in (False, True):
        for kinds in orders:
            p = [["NewDoc"], ["AddNs", ["d", "0"], "ex", EXU]]
            c = ["d", "0"]
            if in_bundle:
                p.append(["NewBundle", "0", ["S", "ex:b"]])
                c = ["b", "0", "0"]
            for i, k in enumerate(kinds):
                p.append(["NewRecord", c, k, ["S", "ex:bob"], [[["S", "ex:n"], ["int", str(i)]]]])
                p.append(["NewRecord", c, "Entity", ["S", "ex:other%d" % i], []])
            for w in walkers:
                p += [w, ["GetRecord", c, ["S", "ex:bob"]]]
            p += [["NewDoc"], ["Update", ["d", "1"], ["d", "0"]], ["GetRecord", c, ["S", "ex:bob"]],
                  ["NewRecord", c, "Activity", ["S", "ex:bob"], []], ["Unified", "0"], ["GetRecord", c, ["S", "ex:bob"]]]
            out.append(p)
    return out


def boundary_identifier_histories():
    """fixed programs: identifiers at the boundaries of the name syntax — a URI that is exactly a declared namespace URI
    (empty local part), a local part that is itself a URI, a local part holding the prefix separator — created through
    each insertion path, looked up in every spelling (the probe after every call spells each identifier as QualifiedName,
    under another prefix, as full URI, as prefix:local)"""
    U = "http://example.org/dataset#"
    out = []
    for ident in (["Q", "ex", U, ""], ["Q", "ex", U, "http://example.org/dataset#x"], ["Q", "ex", U, "a:b"], ["S", U]):
        p = [["NewDoc"], ["AddNs", ["d", "0"], "ex", U], ["NewBundle", "0", ["S", "ex:bundle"]],
             ["NewRecord", ["d", "0"], "Entity", ident, [[["S", "ex:k"], ["int", "1"]]]],
             ["NewRecord", ["b", "0", "0"], "Agent", ident, []],
             ["NewRecord", ["d", "0"], "Entity", ["S", "ex:other"], []],
             ["GetRecord", ["d", "0"], ["S", U]], ["GetRecord", ["b", "0", "0"], ["S", U]],
             ["NewDoc"], ["Update", ["d", "1"], ["d", "0"]], ["GetRecord", ["d", "1"], ["S", U]],
             ["Unified", "0"], ["Flattened", "0"], ["ExportJson", "0"]]
        out.append(p)
    return out


def run(tier, seed, log, model_runs=True, enlarged=False):
    return worldprop.run(PROP, tier, seed, log, model_runs, enlarged, C18Oracle, ["merge", "mixed", "records"],
                         n_quick=150, n_thorough=2500, classify=classify, nontrivial=nontrivial,
                         ops_range_quick=(6, 20), ops_range_thorough=(8, 40),
                         rule_text="API programs (profiles merge/mixed/records) covering every insertion path; after every "
                                   "mutating call each container of a deep copy of the world is probed: get_record in every "
                                   "spelling that denotes the identifier, an absent identifier, identifiers held only by sibling containers "
                                   "(the enclosing document, other bundles), get_records for every class "
                                   "and abstract base, records-is-a-copy; plus 16 fixed scoping histories (a bundle resolving through its document, then getting its "
                                   "own default namespace by set_default_namespace / update / a prefix-less name) and 8 histories with one identifier on records of several kinds followed by every call that walks the index; "
                                   "non-trivial = >=3 record-inserting calls",
                         extra_cases=scoping_histories() + after_derivation_histories() + boundary_identifier_histories(),
                         theorem_note="C18_* over World.add_rec_to / Interp.step")


def replay(path, log):
    return worldprop.replay(path, C18Oracle, log)
