"""C04 — document equality is an equivalence that coincides with content equivalence."""
import copy
import itertools

from harness import worldprop, impl as I
from harness.content import lc_doc, lc_cont, lc_rec

PROP = "C04"
TRUSTED_BASE = [
    "Coq 8.16.1 kernel (coqc); vm_compute for Examples; no native_compute",
    "model: coq/theories/Record.v rec_eqb, World.v dedup/greedy_match/bundle_eqb/doc_eqb (ProvRecord.__eq__, "
    "ProvBundle.__eq__, ProvDocument.__eq__ as repaired), Values.v py_eq/set_same; tied to /repo by Eq/EqRec calls in "
    "the correspondence run",
    "hash is not modelled: eq => equal hash is checked on the implementation only",
    "extraction: ExtrOcamlBasic + ExtrOcamlString; ocaml/driver.ml",
]
ASSUMPTIONS = ["64-bit hash collisions between unequal keys are ignored",
               "values that compare equal but differ in kind (1/True/1.0) inside one attribute are outside the property"]


class C04Oracle(worldprop.Oracle):
    def after(self, idx, op, ob):
        # the relation is compared over histories: compare and hash everything after every call, so that
        # anything the library memoises is populated before the next mutation
        for di, d in enumerate(self.im.docs):
            try:
                d == d
                for c in [d] + list(d.bundles):
                    for r in c.get_records():
                        hash(r)
                        # read-only inspection must not change what a record is equal to: only every other
                        # document is inspected, so that an inspected record meets a never-inspected equal one
                        if di % 2:
                            continue
                        r.label, r.value, r.get_asserted_types(), r.args, r.formal_attributes, r.extra_attributes
                        r.get_attribute("prov:location"), r.get_attribute("prov:role")
                        if hasattr(r, "get_startTime"):
                            r.get_startTime(), r.get_endTime()
                        r.get_provn(), str(r), repr(r)
            except Exception as ex:
                self.fail(idx, "comparison or hash raised", exc=repr(ex)[:200])

    def finish(self, ops):
        docs = self.im.docs
        idx = len(ops)
        n = len(docs)
        eq = {}
        for i in range(n):
            for j in range(n):
                try:
                    e = docs[i] == docs[j]
                    ne = docs[i] != docs[j]
                except Exception as ex:
                    self.fail(idx, "document comparison raised", i=i, j=j, exc=repr(ex))
                    continue
                eq[(i, j)] = e
                if e == ne:
                    self.fail(idx, "== and != disagree on documents", i=i, j=j, eq=e, ne=ne)
        lcs = [lc_doc(d) for d in docs]
        for i in range(n):
            if not eq.get((i, i), True):
                self.fail(idx, "document == is not reflexive", i=i)
            for j in range(n):
                if (i, j) in eq and (j, i) in eq and eq[(i, j)] != eq[(j, i)]:
                    self.fail(idx, "document == is not symmetric", i=i, j=j)
                if (i, j) in eq and eq[(i, j)] != (lcs[i] == lcs[j]):
                    self.fail(idx, "document == differs from content equivalence", i=i, j=j, eq=eq[(i, j)],
                              content_equal=(lcs[i] == lcs[j]))
        for i, j, k in itertools.islice(itertools.product(range(n), repeat=3), 200):
            if eq.get((i, j)) and eq.get((j, k)) and not eq.get((i, k)):
                self.fail(idx, "document == is not transitive", i=i, j=j, k=k)
        # bundles
        bs = [b for d in docs for b in d.bundles][:8]
        for a in bs:
            for b in bs:
                e1, e2 = (a == b), (b == a)
                if e1 != e2:
                    self.fail(idx, "bundle == is not symmetric")
                if e1 != (lc_cont(a) == lc_cont(b)):
                    self.fail(idx, "bundle == differs from record-set equality", eq=e1)
                if (a != b) == e1:
                    self.fail(idx, "== and != disagree on bundles")
        # records
        rs = [r for d in docs for c in [d] + list(d.bundles) for r in c.get_records()]
        step = max(1, len(rs) // 14)
        rs = rs[::step][:14]
        for a in rs:
            for b in rs:
                e1, e2 = (a == b), (b == a)
                if e1 != e2:
                    self.fail(idx, "record == is not symmetric", a=a.get_provn()[:120], b=b.get_provn()[:120])
                if e1 and hash(a) != hash(b):
                    self.fail(idx, "equal records hash differently", a=a.get_provn()[:120])
                if e1 != (lc_rec(a) == lc_rec(b)):
                    self.fail(idx, "record == differs from content equality", eq=e1, a=a.get_provn()[:160], b=b.get_provn()[:160])
                if (a != b) == e1:
                    self.fail(idx, "== and != disagree on records")
            if not (a == a):
                self.fail(idx, "record == is not reflexive")


# ---------------------------------------------------------------- variants
def rebuild_ops(im, k, n, rng, edit):
    """Ops that build, as document n, a copy of document k transformed by `edit`:
    content-preserving (perm, rename, dup, same) or one content-changing edit."""
    d = im.docs[k]
    ren = (lambda p: (p + "r") if p not in ("", "prov", "xsd", "xsi") else p) if edit == "rename" else (lambda p: p)

    def qn(q, tag="Q"):
        return [tag, ren(q.namespace.prefix), q.namespace.uri, q.localpart]

    def val(v):
        s = I.sx_value(v)
        if s[0] == "qn":
            return ["qn", ren(s[1]), s[2], s[3]]
        if s[0] == "lit" and isinstance(s[2], list):
            return ["lit", s[1], ["qn", ren(s[2][1]), s[2][2], s[2][3]], s[3]]
        return s
    ops = [["NewDoc"]]
    for nsx in d._namespaces.get_registered_namespaces():
        ops.append(["AddNs", ["d", str(n)], ren(nsx.prefix), nsx.uri])
    if d._namespaces._default is not None:
        ops.append(["SetDefault", ["d", str(n)], d._namespaces._default.uri])
    conts = [(["d", str(n)], d, None)]
    for j, b in enumerate(d.bundles):
        conts.append((["b", str(n), str(j)], b, b.identifier))
    rec_ops = []
    for cref, c, bid in conts:
        if bid is not None:
            ops_b = ["NewBundle", str(n), qn(bid)]
            rec_ops.append(("bundle", ops_b))
            for nsx in c._namespaces.get_registered_namespaces():
                rec_ops.append(("ns", ["AddNs", cref, ren(nsx.prefix), nsx.uri]))
            if c._namespaces._default is not None:
                rec_ops.append(("ns", ["SetDefault", cref, c._namespaces._default.uri]))
        recs = list(c.get_records())
        if edit == "perm":
            rng.shuffle(recs)
        for r in recs:
            attrs = [[qn(a), val(v)] for a, v in r.attributes]
            if edit == "perm":
                rng.shuffle(attrs)
            rec_ops.append(("rec", ["NewRecord", cref, I.KIND_OF[type(r)],
                                    qn(r.identifier) if r.identifier is not None else "none", attrs]))
    recs_idx = [i for i, (t, _) in enumerate(rec_ops) if t == "rec"]
    changed = edit in ("same", "perm", "rename")
    if recs_idx:
        i = rng.choice(recs_idx)
        op = rec_ops[i][1]
        if edit == "dup":
            rec_ops.insert(i + 1, ("rec", copy.deepcopy(op)))
            changed = True
        elif edit == "drop-record":
            del rec_ops[i]
            changed = True
        elif edit == "value" and op[4]:
            j = rng.randrange(len(op[4]))
            v = op[4][j][1]
            if v[0] == "qn":
                op[4][j][1] = ["qn", v[1], v[2], v[3] + "X"]
            elif v[0] == "str":
                op[4][j][1] = ["str", v[1] + "X"]
            elif v[0] == "int":
                op[4][j][1] = ["int", str(int(v[1]) + 1)]
            elif v[0] == "time":
                # another minute (a changed year could leave the calendar: 29 February)
                op[4][j][1] = v[:5] + [str((int(v[5]) + 1) % 60)] + v[6:]
            elif v[0] == "lit":
                op[4][j][1] = ["lit", v[1] + "X", v[2], v[3]]
            elif v[0] == "bool":
                op[4][j][1] = ["bool", "false" if v[1] == "true" else "true"]
            elif v[0] == "id":
                op[4][j][1] = ["id", v[1] + "X"]
            else:
                op[4][j][1] = ["str", "edited"]
            changed = True
        elif edit == "value-kind" and op[4]:
            # the same printed form under another kind of value: a qualified name as the URI it denotes, a URI as a
            # string, an int as its decimal string, a boolean as a string (not on formal attributes, which normalise)
            formal = {"entity", "activity", "agent", "time", "startTime", "endTime", "trigger", "starter", "ender", "informed",
                      "informant", "generatedEntity", "usedEntity", "generation", "usage", "plan", "delegate", "responsible",
                      "influencee", "influencer", "specificEntity", "generalEntity", "bundle", "collection", "alternate1", "alternate2"}
            cands = [j for j, (a, v) in enumerate(op[4]) if not (a[0] == "Q" and a[2] == "http://www.w3.org/ns/prov#" and a[3] in formal)
                     and not (a[0] == "S" and a[1].startswith("prov:") and a[1][5:] in formal) and v[0] in ("qn", "id", "int", "bool")]
            if cands:
                j = rng.choice(cands)
                v = op[4][j][1]
                if v[0] == "qn":
                    op[4][j][1] = [rng.choice(["id", "str"]), v[2] + v[3]]
                elif v[0] == "id":
                    op[4][j][1] = ["str", v[1]]
                elif v[0] == "int":
                    op[4][j][1] = ["str", v[1]]
                else:
                    op[4][j][1] = ["str", "True" if v[1] == "true" else "False"]
                changed = True
        elif edit == "drop-attr" and op[4]:
            del op[4][rng.randrange(len(op[4]))]
            changed = True
        elif edit == "add-attr":
            op[4].append([["Q", "exv", "http://variant.test/", "added"], ["int", "424242"]])
            changed = True
        elif edit == "id" and op[3] != "none":
            op[3] = [op[3][0], op[3][1], op[3][2], op[3][3] + "X"]
            changed = True
        elif edit == "drop-id" and op[3] != "none" and op[2] not in ("Entity", "Activity", "Agent"):
            op[3] = "none"
            changed = True
        elif edit == "add-id" and op[3] == "none":
            op[3] = ["Q", "exv", "http://variant.test/", "given-id"]
            changed = True
        elif edit == "kind":
            swap = {"Entity": "Agent", "Agent": "Entity", "Usage": "Generation", "Generation": "Usage",
                    "Start": "End", "End": "Start", "Specialization": "Alternate", "Alternate": "Specialization"}
            if op[2] in swap and not (op[2] in ("Usage", "Generation", "Specialization", "Alternate") and False):
                # formal attribute names differ between some kinds: keep only when the edit applies cleanly
                if op[2] in ("Entity", "Agent") or op[2] in ("Start", "End"):
                    op[2] = swap[op[2]]
                    changed = True
                elif op[2] == "Specialization" and rng.random() < 0.7:
                    op[2] = "Mention"          # a subclass with the same first two formal attributes
                    changed = True
    bundles_idx = [i for i, (t, _) in enumerate(rec_ops) if t == "bundle"]
    if edit == "add-bundle":
        rec_ops.append(("bundle", ["NewBundle", str(n), ["Q", "exv", "http://variant.test/", "extra-bundle"]]))
        changed = True
    if not changed:
        return None
    return ops + [o for _, o in rec_ops]


EDITS = ["same", "perm", "rename", "dup", "value", "value-kind", "value-kind", "drop-attr", "add-attr", "id", "drop-record", "kind", "add-bundle",
         "drop-id", "add-id", "drop-id", "add-id"]


def post(g):
    rng = g.rng
    nd = len(g.im.docs)
    cands = [k for k in range(nd) if len(g.im.docs[k]._records) + sum(len(b._records) for b in g.im.docs[k].bundles) > 0]
    if not cands:
        return
    for _ in range(rng.choice([2, 3, 4])):
        k = rng.choice(cands)
        n = len(g.im.docs)
        ops = rebuild_ops(g.im, k, n, rng, rng.choice(EDITS))
        if ops is None:
            continue
        saved = g.observe_each
        g.observe_each = False
        for o in ops:
            g.emit(o)
        g.observe_each = saved
        g.emit(["Eq", ["d", str(k)], ["d", str(n)]])
        g.emit(["Eq", ["d", str(n)], ["d", str(k)]])


def nontrivial(ops):
    return sum(1 for o in ops if o[0] == "Eq") >= 2 and sum(1 for o in ops if o[0] == "NewRecord") >= 2


def fixed_programs():
    """documents whose records hold several values under one formal attribute (a membership built with the collection
    given as a QualifiedName, which switches the single-value guard off): equal up to the order of the members,
    and different in one member only — whichever member the set iterates first"""
    EXU = "http://example.org/"
    PROVU = "http://www.w3.org/ns/prov#"

    def member_doc(i, ents, extra=None):
        attrs = [[["Q", "prov", PROVU, "collection"], ["str", "ex:c"]]] + [[["Q", "prov", PROVU, "entity"], ["str", "ex:" + e]] for e in ents]
        if extra:
            attrs.append(extra)
        return [["NewDoc"], ["AddNs", ["d", str(i)], "ex", EXU], ["NewRecord", ["d", str(i)], "Membership", ["S", "ex:m"], attrs]]
    out = []
    p = member_doc(0, ["e1", "e2"]) + member_doc(1, ["e2", "e1"]) + member_doc(2, ["e1", "e3"]) + member_doc(3, ["e3", "e2"]) + \
        member_doc(4, ["e1", "e2", "e3"]) + member_doc(5, ["e1", "e2"], [["S", "ex:k"], ["int", "1"]])
    for a in range(6):
        for b in range(6):
            if a != b:
                p.append(["Eq", ["d", str(a)], ["d", str(b)]])
    out.append(p)
    # several element records of one kind under one identifier (identifiers are not unique): equal up to the order of
    # the records, different when an earlier one differs — at document level and inside a bundle
    def same_id_doc(i, ks, in_bundle):
        ops = [["NewDoc"], ["AddNs", ["d", str(i)], "ex", EXU]]
        c = ["d", str(i)]
        if in_bundle:
            ops.append(["NewBundle", str(i), ["S", "ex:b"]])
            c = ["b", str(i), "0"]
        for k in ks:
            ops.append(["NewRecord", c, "Entity", ["S", "ex:e"], [[["S", "ex:k"], ["int", str(k)]]]])
        ops.append(["NewRecord", c, "Agent", ["S", "ex:e2"], []])
        return ops
    for in_bundle in (False, True):
        p = same_id_doc(0, [1, 2, 3], in_bundle) + same_id_doc(1, [3, 1, 2], in_bundle) + same_id_doc(2, [9, 2, 3], in_bundle) + \
            same_id_doc(3, [1, 9, 3], in_bundle) + same_id_doc(4, [1, 2], in_bundle) + same_id_doc(5, [1, 2, 2], in_bundle)
        for a in range(6):
            for b in range(6):
                if a != b:
                    p.append(["Eq", ["d", str(a)], ["d", str(b)]])
        out.append(p)
    # records that differ in kind only, where one kind's class is a subclass of the other's (mentionOf without a bundle
    # argument / specializationOf) or the kinds share their formal arguments (generation / usage / invalidation mirrored)
    def kind_doc(i, kind, a1, a2):
        return [["NewDoc"], ["AddNs", ["d", str(i)], "ex", EXU],
                ["NewRecord", ["d", str(i)], kind, ["S", "ex:r"], [[["Q", "prov", PROVU, a1], ["str", "ex:x"]], [["Q", "prov", PROVU, a2], ["str", "ex:y"]]]]]
    p = kind_doc(0, "Specialization", "specificEntity", "generalEntity") + kind_doc(1, "Mention", "specificEntity", "generalEntity") + \
        kind_doc(2, "Alternate", "alternate1", "alternate2") + kind_doc(3, "Generation", "entity", "activity") + \
        kind_doc(4, "Invalidation", "entity", "activity") + kind_doc(5, "Usage", "activity", "entity")
    for a in range(6):
        for b in range(6):
            if a != b:
                p.append(["Eq", ["d", str(a)], ["d", str(b)]])
                p.append(["EqRec", ["r", ["d", str(a)], "0"], ["r", ["d", str(b)], "0"]])
    out.append(p)
    # one attribute of one entity holding, in turn, values that denote or print alike but are different values: the
    # qualified name ex:a, the same name under another prefix (the SAME value), the URI it denotes as an xsd:anyURI, as a
    # plain string, the string "ex:a", a language-tagged "ex:a"; 1, "1", True, "True", 1.0 — every pair, both orders, as
    # documents, and the same with the attribute inside a bundle
    vals = [["qn", "ex", EXU, "a"], ["qn", "ex2", EXU, "a"], ["id", EXU + "a"], ["str", EXU + "a"], ["str", "ex:a"],
            ["lit", "ex:a", "none", ["some", "en"]], ["int", "1"], ["str", "1"], ["bool", "true"], ["str", "True"],
            ["lit", EXU + "a", ["qn", "ex", EXU, "T"], "none"],
            # a language tag together with an explicit datatype: the tag wins, the value IS the language-tagged "ex:a"
            ["lit", "ex:a", ["qn", "xsd", "http://www.w3.org/2001/XMLSchema#", "string"], ["some", "en"]],
            ["lit", "ex:a", ["qn", "ex", EXU, "T"], ["some", "en"]],
            ["lit", "ex:a", ["qn", "prov", PROVU, "InternationalizedString"], ["some", "en"]]]
    for in_bundle in (False, True):
        p = []
        for i, v in enumerate(vals):
            p += [["NewDoc"], ["AddNs", ["d", str(i)], "ex", EXU], ["AddNs", ["d", str(i)], "ex2", EXU]]
            c = ["d", str(i)]
            if in_bundle:
                p.append(["NewBundle", str(i), ["S", "ex:b"]])
                c = ["b", str(i), "0"]
            p.append(["NewRecord", c, "Entity", ["S", "ex:e"], [[["S", "ex:k"], v], [["S", "prov:type"], v]]])
        for a in range(len(vals)):
            for b in range(len(vals)):
                if a != b:
                    p.append(["Eq", ["d", str(a)], ["d", str(b)]])
        for a in range(len(vals)):
            p.append(["EqRec", ["r", ["b", str(a), "0"] if in_bundle else ["d", str(a)], "0"], ["r", ["b", str((a + 3) % len(vals)), "0"] if in_bundle else ["d", str((a + 3) % len(vals))], "0"]])
        out.append(p)
    return out


def run(tier, seed, log, model_runs=True, enlarged=False):
    return worldprop.run(PROP, tier, seed, log, model_runs, enlarged, C04Oracle, ["mixed", "merge", "records"],
                         n_quick=160, n_thorough=3000, post=post, nontrivial=nontrivial,
                         ops_range_quick=(5, 16), ops_range_thorough=(6, 30),
                         rule_text="API programs followed by 2-4 variant documents per program, each rebuilt from a document of "
                                   "the program by one content-preserving transformation (same, record/attribute permutation, "
                                   "prefix renaming, duplicate insertion) or one content-changing edit (value, kind of a value with the same printed form, "
                                   "attribute removed/"
                                   "added, identifier, record removed, record kind, extra bundle), compared in both orders through "
                                   "the model too; after every call every document is compared with itself and every record hashed and inspected through its "
                                   "read accessors (label, value, get_attribute, asserted types, times, args; so memoised or lazily created "
                                   "state predates later mutations); at the end all pairs/triples of documents, bundles and sampled records are "
                                   "checked: reflexive, symmetric, transitive, != , hash, and == iff library-level content equal; "
                                   "non-trivial = >=2 Eq calls on documents with >=2 records",
                         extra_cases=fixed_programs(),
                         theorem_note="C04_* over Record.rec_eqb / World.bundle_eqb / doc_eqb")


def replay(path, log):
    return worldprop.replay(path, C04Oracle, log)
