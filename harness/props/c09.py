"""C09 — flattened(), update() and add_bundle() conserve records."""
import copy
from collections import Counter

from harness import worldprop, impl as I
from harness.content import strict_cont, strict_doc, observable_doc

PROP = "C09"
TRUSTED_BASE = [
    "Coq 8.16.1 kernel (coqc); vm_compute for Examples; no native_compute",
    "model: coq/theories/World.v add_record/add_records (re-creation in the target scope), Interp.step OUpdate, "
    "OAddBundleDoc, OFlattened, ONewBundle; tied to /repo by the correspondence run (full state after every call)",
    "extraction: ExtrOcamlBasic + ExtrOcamlString; ocaml/driver.ml",
]
ASSUMPTIONS = [
    "conservation of URIs under re-homing rests on C03a; the multi-member membership path is not claimed (as in C05)",
    "add_bundle of a ProvBundle object re-parents that object (documented sharing): the model attaches documents only; bundle "
    "objects (named, unnamed, named like an attached bundle) are judged on the implementation alone by fixed scenarios",
]


def total(doc):
    c = Counter()
    for k, v in strict_doc(doc).items():
        c.update(v)
    return c


def records_and_bundles(d):
    """records (strict, in order) of the document and of each bundle, by bundle identifier.  The statement promises
    'without changing d' for a refused add_bundle; for a refused bundle() it promises nothing beyond conservation of
    records, and bundle() does register the namespace of a qualified-name argument before it looks the identifier up."""
    return tuple((k, recs) for k, recs, _ in observable_doc(d))


class C09Oracle(worldprop.Oracle):
    def before(self, idx, op):
        k = op[0]
        self.pre = None
        try:
            if k == "Flattened":
                d = self.im.docs[int(op[1])]
                self.pre = ("flat", total(d), observable_doc(d), len(d._bundles))
            elif k == "Update":
                tgt, src = self.im.cont(op[1]), self.im.cont(op[2])
                tdoc = self.im.docs[int(op[1][1])]
                sdoc = self.im.docs[int(op[2][1])]
                self.pre = ("upd", strict_doc(tdoc) if op[1][0] == "d" else {"": strict_cont(tgt)},
                            strict_doc(sdoc) if op[2][0] == "d" else {"": strict_cont(src)},
                            observable_doc(sdoc), observable_doc(tdoc), tdoc is sdoc, tgt is src)
            elif k == "AddBundleDoc":
                d, s = self.im.docs[int(op[1])], self.im.docs[int(op[2])]
                self.pre = ("addb", observable_doc(d), strict_cont(s), observable_doc(s), len(s._bundles),
                            [b.identifier.uri for b in d.bundles])
            elif k == "NewBundle":
                d = self.im.docs[int(op[1])]
                self.pre = ("newb", records_and_bundles(d), len(d._bundles))
        except IndexError:
            self.pre = None

    def after(self, idx, op, ob):
        if self.pre is None:
            return
        raised = isinstance(ob, list) and ob and ob[0] == "raise"
        k = self.pre[0]
        if k == "flat":
            _, tot, obs, nb = self.pre
            d = self.im.docs[int(op[1])]
            if observable_doc(d) != obs:
                self.fail(idx, "flattened() changed the source document")
            if raised:
                self.fail(idx, "flattened() raised", exc=ob[1])
                return
            f = self.im.docs[int(ob[1])]
            if len(f._bundles) != 0:
                self.fail(idx, "flattened() returned a document with bundles")
            if strict_cont(f) != tot:
                self.fail(idx, "flattened() does not hold exactly the document's and its bundles' records",
                          missing=repr(list((tot - strict_cont(f)).items())[:2])[:500],
                          extra=repr(list((strict_cont(f) - tot).items())[:2])[:500])
        elif k == "upd":
            _, tpre, spre, sobs, tobs, same_doc, same_cont = self.pre
            tdoc = self.im.docs[int(op[1][1])]
            sdoc = self.im.docs[int(op[2][1])]
            if not same_doc and observable_doc(sdoc) != sobs:
                self.fail(idx, "update() changed the other document")
            if raised:
                return      # partial effect on d is allowed by the statement only for add_bundle; nothing claimed here
            if same_cont or same_doc:
                return
            tgt = self.im.cont(op[1])
            tpost = strict_doc(tdoc) if op[1][0] == "d" else {"": strict_cont(tgt)}
            want = {k2: Counter(v) for k2, v in tpre.items()}
            for k2, v in spre.items():
                if op[1][0] == "b" and k2 != "":
                    continue
                want.setdefault(k2, Counter()).update(v)
            if {k2: v for k2, v in tpost.items()} != want:
                self.fail(idx, "update() result is not former records plus the other's (bundle-wise)",
                          keys_want=sorted(map(str, want)), keys_got=sorted(map(str, tpost)))
        elif k == "addb":
            _, dobs, srecs, sobs, snb, ids = self.pre
            d, s = self.im.docs[int(op[1])], self.im.docs[int(op[2])]
            if s is not d and observable_doc(s) != sobs:
                self.fail(idx, "add_bundle() changed the attached document")
            if raised:
                if observable_doc(d) != dobs:
                    self.fail(idx, "add_bundle() raised but changed the document")
                return
            if snb:
                self.fail(idx, "add_bundle() accepted a document with nested bundles")
            new = [b for b in d.bundles if b.identifier.uri not in ids]
            if len(new) != 1 or len(list(d.bundles)) != len(ids) + 1:
                self.fail(idx, "add_bundle() did not attach exactly one new bundle", new=len(new))
                return
            if strict_cont(new[0]) != srecs:
                self.fail(idx, "add_bundle() lost or changed records of the attached document")
            x = op[3]
            if x != "none":
                # the bundle sits under the URI the requested identifier denotes
                want = None
                if x[0] == "Q":
                    want = x[2] + x[3]
                if want is not None and new[0].identifier.uri != want:
                    self.fail(idx, "add_bundle() attached under another identifier", want=want, got=new[0].identifier.uri)
        elif k == "newb":
            _, dobs, nb = self.pre
            d = self.im.docs[int(op[1])]
            if raised and records_and_bundles(d) != dobs:
                self.fail(idx, "bundle() raised but changed the document's records or bundles")
            if not raised and len(d._bundles) != nb + 1:
                self.fail(idx, "bundle() did not add exactly one bundle")


def nontrivial(ops):
    return sum(1 for o in ops if o[0] in ("Update", "AddBundleDoc", "Flattened", "NewBundle")) >= 2


def fixed_programs():
    """add_bundle of two documents under the same identifier string, the prefix being declared by the added documents
    only (the second call must be refused and change nothing), and under a prefix the target binds differently"""
    out = []
    for target_binds in (None, "http://other.org/"):
        p = [["NewDoc"]]
        if target_binds:
            p.append(["AddNs", ["d", "0"], "ex", target_binds])
        p += [["NewRecord", ["d", "0"], "Entity", ["Q", "t", "http://t.test/", "top"], []],
              ["NewDoc"], ["AddNs", ["d", "1"], "ex", "http://example.org/"],
              ["NewRecord", ["d", "1"], "Entity", ["S", "ex:e1"], [[["S", "ex:k"], ["int", "1"]]]],
              ["NewDoc"], ["AddNs", ["d", "2"], "ex", "http://example.org/"],
              ["NewRecord", ["d", "2"], "Entity", ["S", "ex:e2"], []],
              ["AddBundleDoc", "0", "1", ["S", "ex:b"], ["ex"]],
              ["AddBundleDoc", "0", "2", ["S", "ex:b"], ["ex"]],
              ["AddBundleDoc", "0", "2", ["Q", "ex", "http://example.org/", "b"], ["ex"]],
              ["Flattened", "0"], ["Update", ["d", "2"], ["d", "0"]]]
        out.append(p)
    # records holding, as an ordinary attribute, a PROV attribute name that is formal for other kinds only (prov:time on an
    # association, prov:activity on an influence, prov:entity on an agent, prov:agent on an entity): copies must keep it
    PROVU = "http://www.w3.org/ns/prov#"
    EXU = "http://example.org/"
    t = ["time", "2012", "3", "31", "9", "21", "0", "0", "none"]

    def q(l):
        return ["Q", "prov", PROVU, l]
    recs = [("Association", "ex:as", [[q("activity"), ["str", "ex:a"]], [q("agent"), ["str", "ex:ag"]], [q("time"), t]]),
            ("Influence", "ex:inf", [[q("influencee"), ["str", "ex:e"]], [q("influencer"), ["str", "ex:a"]], [q("activity"), ["str", "ex:a2"]]]),
            ("Agent", "ex:ag", [[q("entity"), ["str", "ex:e"]], [["S", "ex:k"], ["int", "1"]]]),
            ("Entity", "ex:e", [[q("agent"), ["str", "ex:ag"]], [q("startTime"), t]]),
            ("Usage", "none", [[q("activity"), ["str", "ex:a"]], [q("entity"), ["str", "ex:e"]], [q("plan"), ["str", "ex:p"]], [q("endTime"), t]])]
    p = [["NewDoc"], ["AddNs", ["d", "0"], "ex", EXU], ["NewBundle", "0", ["S", "ex:b"]]]
    for kind, ident, attrs in recs:
        p.append(["NewRecord", ["d", "0"], kind, "none" if ident == "none" else ["S", ident], attrs])
        p.append(["NewRecord", ["b", "0", "0"], kind, "none" if ident == "none" else ["S", ident], attrs])
    p += [["Flattened", "0"], ["NewDoc"], ["Update", ["d", "2"], ["d", "0"]],
          ["NewDoc"], ["AddBundleDoc", "3", "0", ["Q", "ex", EXU, "whole"], ["ex"]]]
    out.append(p)
    # flattened() is a function of the document as it is at the time of the call: called again after the earlier result
    # was changed (update, new record), after a record was added to one of the source's bundles, after a bundle was
    # added, after an attribute was added in place — each result must hold exactly the records the source holds then
    head = [["NewDoc"], ["AddNs", ["d", "0"], "ex", EXU], ["NewBundle", "0", ["S", "ex:b1"]],
            ["NewRecord", ["d", "0"], "Entity", ["S", "ex:top"], []],
            ["NewRecord", ["b", "0", "0"], "Entity", ["S", "ex:in1"], [[["S", "ex:k"], ["int", "1"]]]],
            ["NewDoc"], ["AddNs", ["d", "1"], "ex", EXU], ["NewRecord", ["d", "1"], "Agent", ["S", "ex:other"], []]]
    changes = [[["Update", ["d", "2"], ["d", "1"]]],                                   # the earlier result receives records
               [["NewRecord", ["d", "2"], "Activity", ["S", "ex:late"], []]],
               [["NewRecord", ["b", "0", "0"], "Entity", ["S", "ex:in2"], []]],           # the source's bundle grows
               [["NewBundle", "0", ["S", "ex:b2"]], ["NewRecord", ["b", "0", "1"], "Entity", ["S", "ex:in3"], []]],
               [["AddAttrs", ["r", ["b", "0", "0"], "0"], [[["S", "ex:k"], ["int", "2"]]]]],
               [["NewRecord", ["d", "0"], "Entity", ["S", "ex:top2"], []]],
               [["AddBundleDoc", "0", "1", ["S", "ex:b3"], ["ex"]]]]
    for i, ch in enumerate(changes):
        for j, ch2 in enumerate(changes):
            if j in (0, 1) and i not in (0, 1):
                continue                                   # (handles: the first result is document 2)
            out.append(head + [["Flattened", "0"]] + ch + [["Flattened", "0"]] + ch2 + [["Flattened", "0"], ["Flattened", "1"]])
    return out


def flatten_again(g):
    """generator phase: flattened(), a change to the source or to the earlier result, flattened() again"""
    rng = g.rng
    for _ in range(rng.choice([0, 1, 1, 2])):
        d = str(rng.randrange(len(g.im.docs)))
        g.emit(["Flattened", d])
        for _ in range(rng.choice([1, 2])):
            rng.choice([g.op_new_record, g.op_add_attrs, g.op_new_bundle, g.op_update, g.op_add_type])()
        g.emit(["Flattened", d])


def bundle_object_scenarios():
    """add_bundle with a ProvBundle object (the model attaches documents only): the bundle — whatever identifier it
    carried — ends up under the requested identifier with all its records; a duplicate requested identifier, and a
    missing one for an unnamed bundle, are refused without changing the document.  Judged on the implementation alone."""
    import prov.model as M
    from prov.identifier import Namespace
    EXU = "http://example.org/"
    ex = Namespace("ex", EXU)
    fails = []
    n = 0

    def fresh_doc():
        d = M.ProvDocument()
        d.add_namespace("ex", EXU)
        d.entity("ex:top")
        return d

    def named_bundle(name, k):
        b = M.ProvBundle(identifier=ex[name]) if name else M.ProvBundle()
        b.add_namespace("ex", EXU)
        for i in range(k):
            b.entity("ex:e%d" % i, {"ex:k": i})
        b.used("ex:a", "ex:e0")
        return b

    for requested in (ex["requested"], "ex:requested"):
        for own in ("original", "requested", None):
            n += 1
            d = fresh_doc()
            b = named_bundle(own, 3)
            want = strict_cont(b)
            try:
                d.add_bundle(b, requested)
            except Exception as e:
                fails.append({"what": "add_bundle(bundle, identifier) raised", "own": own, "exc": repr(e)[:200]})
                continue
            ids = [x.identifier.uri for x in d.bundles]
            if ids != [EXU + "requested"]:
                fails.append({"what": "add_bundle(bundle, identifier) did not attach the bundle under the requested identifier",
                              "own_identifier": own, "got": ids})
                continue
            if strict_cont(list(d.bundles)[0]) != want:
                fails.append({"what": "add_bundle(bundle, identifier) lost or changed records", "own_identifier": own})
            # a second bundle under the same requested identifier is refused and changes nothing
            n += 1
            before = observable_doc(d)
            try:
                d.add_bundle(named_bundle("another", 1), requested)
                fails.append({"what": "add_bundle accepted a duplicate requested identifier", "own_identifier": own,
                              "bundles": [x.identifier.uri for x in d.bundles]})
            except M.ProvException:
                if observable_doc(d) != before:
                    fails.append({"what": "add_bundle() raised but changed the document", "own_identifier": own})
            # a bundle that carries the name already in use goes in under another requested identifier
            n += 1
            try:
                d.add_bundle(named_bundle("requested", 2), ex["second"])
                ids = sorted(x.identifier.uri for x in d.bundles)
                if ids != [EXU + "requested", EXU + "second"]:
                    fails.append({"what": "a bundle named like an attached one was not attached under the other requested identifier",
                                  "got": ids})
            except Exception as e:
                fails.append({"what": "add_bundle(bundle named like an attached one, other identifier) raised", "exc": repr(e)[:200]})
    # no identifier anywhere
    n += 1
    d = fresh_doc()
    before = observable_doc(d)
    try:
        d.add_bundle(named_bundle(None, 1))
        fails.append({"what": "add_bundle accepted a bundle without any identifier"})
    except M.ProvException:
        if observable_doc(d) != before:
            fails.append({"what": "add_bundle() raised but changed the document"})
    # the bundle's own identifier is used when none is requested
    n += 1
    d = fresh_doc()
    d.add_bundle(named_bundle("own", 2))
    if [x.identifier.uri for x in d.bundles] != [EXU + "own"]:
        fails.append({"what": "add_bundle(bundle) did not use the bundle's own identifier"})
    return n, fails


def run(tier, seed, log, model_runs=True, enlarged=False):
    res = run_programs(tier, seed, log, model_runs, enlarged)
    n, fails = bundle_object_scenarios()
    res["coverage"]["bundle_object_scenarios"] = n
    log("bundle-object scenarios: %d, %d failures" % (n, len(fails)))
    for f in fails[:3]:
        res["violations"].append({"kind": "failing-input", "failure": f, "program": None})
    return res


def run_programs(tier, seed, log, model_runs=True, enlarged=False):
    return worldprop.run(PROP, tier, seed, log, model_runs, enlarged, C09Oracle, ["merge"],
                         n_quick=200, n_thorough=3000, nontrivial=nontrivial,
                         ops_range_quick=(8, 26), ops_range_thorough=(10, 45),
                         rule_text="API programs (profile merge: several documents with bundles, shared bundle identifiers, clashing "
                                   "prefixes, differing default namespaces, repeated identifiers; update/add_bundle/bundle()/flattened "
                                   "in sequences; flattened() repeated after changes to the source and to the earlier result); conservation judged on strict record multisets before/after each such call; "
                                   "non-trivial = >=2 of those calls",
                         extra_cases=fixed_programs() + __import__('harness.progs', fromlist=['x']).same_text_programs((), derive=True), post=flatten_again,
                         theorem_note="C09_* over World.add_record / Interp.step")


def replay(path, log):
    return worldprop.replay(path, C09Oracle, log)
