"""C12 — derived documents and copied records share no mutable state with sources."""
from harness import worldprop, impl as I
from harness.content import observable_doc

PROP = "C12"
TRUSTED_BASE = [
    "Coq 8.16.1 kernel (coqc); vm_compute for Examples; no native_compute",
    "model: coq/theories/Interp.v step — a world is a list of document values, every deriving operation appends a new "
    "document value; the frame theorem says a step changes at most its target document. That the Python objects behave "
    "like values (no aliasing between documents) is exactly what the correspondence run and the direct frame oracle "
    "establish on the implementation",
    "extraction: ExtrOcamlBasic + ExtrOcamlString; ocaml/driver.ml",
]
ASSUMPTIONS = [
    "documented sharing not claimed: add_bundle(ProvBundle object) re-parents the given object; flattened() of a "
    "bundle-free document returns the same object; record.copy() keeps the same bundle",
]

MUTATORS = ("AddNs", "SetDefault", "Resolve", "NewBundle", "NewRecord", "Factory", "AddAttrs", "SetTime", "AddType",
            "AddRecord", "Update", "AddBundleDoc", "GetRecord")


def target_doc(op):
    k = op[0]
    if k in ("AddNs", "SetDefault", "Resolve", "NewRecord", "Factory", "AddRecord", "Update", "GetRecord"):
        return int(op[1][1])
    if k in ("NewBundle", "AddBundleDoc"):
        return int(op[1])
    if k in ("AddAttrs", "SetTime", "AddType"):
        return int(op[1][1][1])
    return None


class C12Oracle(worldprop.Oracle):
    def before(self, idx, op):
        self.pre = [observable_doc(d) for d in self.im.docs]
        self.ids = [id(d) for d in self.im.docs]

    def after(self, idx, op, ob):
        try:
            t = target_doc(op)
        except Exception:
            t = None
        for i, obs in enumerate(self.pre):
            if i == t:
                continue
            d = self.im.docs[i]
            if t is not None and t < len(self.im.docs) and d is self.im.docs[t]:
                continue        # the same object under two handles (flattened of a bundle-free document)
            if observable_doc(d) != obs:
                self.fail(idx, "a call changed a document other than its target", call=op[0], changed_doc=i, target=t)
        # a deriving call returns new objects all the way down
        if op[0] in ("Unified", "DocFromRecords") or (op[0] == "Flattened" and isinstance(ob, list) and ob[0] == "handle"
                                                       and int(ob[1]) == len(self.pre)):
            if isinstance(ob, list) and ob[0] == "handle":
                nd = self.im.docs[int(ob[1])]
                olds = self.im.docs[:len(self.pre)]
                old_mgr = {id(x._namespaces) for x in olds} | {id(b._namespaces) for x in olds for b in x.bundles}
                old_recs = {id(r) for x in olds for c in [x] + list(x.bundles) for r in c._records}
                old_bundles = {id(b) for x in olds for b in x.bundles} | {id(x) for x in olds}
                if id(nd) in old_bundles or id(nd._namespaces) in old_mgr:
                    self.fail(idx, "derived document shares its namespace manager or itself with a source", call=op[0])
                for b in nd.bundles:
                    if id(b) in old_bundles or id(b._namespaces) in old_mgr:
                        self.fail(idx, "derived document shares a bundle with a source", call=op[0])
                for c in [nd] + list(nd.bundles):
                    for r in c._records:
                        if id(r) in old_recs:
                            self.fail(idx, "derived document shares a record object with a source", call=op[0])
                        for vs in r._attributes.values():
                            pass


def post(g):
    """After the random phase: derive, then mutate either side, repeatedly."""
    rng = g.rng
    for _ in range(rng.choice([1, 2, 3])):
        g.op_derive() if rng.random() < 0.6 else (g.op_update() if rng.random() < 0.5 else g.op_add_bundle_doc())
        for _ in range(rng.choice([1, 2, 3])):
            rng.choice([g.op_ns, g.op_new_record, g.op_add_attrs, g.op_new_bundle, g.op_factory, g.op_add_type])()


def nontrivial(ops):
    der = [i for i, o in enumerate(ops) if o[0] in ("Unified", "Flattened", "DocFromRecords", "Update", "AddBundleDoc", "AddRecord")]
    return bool(der) and any(o[0] in MUTATORS for o in ops[der[0] + 1:])


def run(tier, seed, log, model_runs=True, enlarged=False):
    return worldprop.run(PROP, tier, seed, log, model_runs, enlarged, C12Oracle, ["merge", "mixed"],
                         n_quick=200, n_thorough=3000, post=post, nontrivial=nontrivial,
                         ops_range_quick=(6, 20), ops_range_thorough=(8, 40),
                         rule_text="API programs: a random phase, then rounds of one deriving operation (unified, flattened, "
                                   "document from records, update, add_bundle of a document, add_record) followed by mutators on "
                                   "arbitrary documents (namespaces, default namespace, records, attributes, bundles); after every "
                                   "call the strict content, record order, registered namespaces and default namespace of every "
                                   "document other than the call's target must be unchanged, and derived documents must consist "
                                   "of new objects; non-trivial = a deriving call followed by a mutator",
                         theorem_note="C12_frame over Interp.step")


def replay(path, log):
    return worldprop.replay(path, C12Oracle, log)
