"""C12 — derived documents and copied records share no mutable state with sources."""
from harness import worldprop, impl as I
from harness.content import observable_doc

PROP = "C12"
TRUSTED_BASE = [
    "Coq 8.16.1 kernel (coqc); vm_compute for Examples; no native_compute",
    "model: coq/theories/Interp.v step — a world is a list of document values, every deriving operation appends a new "
    "document value; the frame theorem says a step changes at most its target document. That the Python objects behave "
    "like values (no aliasing between documents) is exactly what the correspondence run and the direct frame oracle "
    "establish on the implementation",
    "model: coq/theories/Alias.v astep — a store of managers, records and bundles/documents that point at each other; every "
    "call allocates, links and writes as model.py does (hand-written account; content reduced to write counters; the ghost field "
    "aown is read by no call). Tied per run: the implementation's object graph by id() after every call against Alias.atrace. "
    "Counts that depend on content (records kept by unified(), coinciding bundle identifiers in update(), what a deserialised "
    "document holds, records made by a factory call) are arguments of the model's calls and are read off the implementation. "
    "Outside the store model: add_bundle(ProvBundle object), bundle.unified() results (checked by the oracle directly)",
    "extraction: ExtrOcamlBasic + ExtrOcamlString; ocaml/driver.ml",
]
ASSUMPTIONS = [
    "documented sharing not claimed: add_bundle(ProvBundle object) re-parents the given object; flattened() of a "
    "bundle-free document returns the same object; record.copy() keeps the same bundle (but must not share attribute state)",
]

MUTATORS = ("AddNs", "SetDefault", "Resolve", "NewBundle", "NewRecord", "Factory", "AddAttrs", "SetTime", "AddType",
            "AddRecord", "Update", "AddBundleDoc", "GetRecord", "ElemMethod")


def target_doc(op):
    k = op[0]
    if k in ("AddNs", "SetDefault", "Resolve", "NewRecord", "Factory", "AddRecord", "Update", "GetRecord"):
        return int(op[1][1])
    if k in ("NewBundle", "AddBundleDoc"):
        return int(op[1])
    if k in ("AddAttrs", "SetTime", "AddType", "ElemMethod"):
        return int(op[1][1][1])
    return None



# ---- the object graph, against coq/theories/Alias.v (theorems C12_no_shared_object, C12_object_frame) -------------------
def _closure(d):
    """ids of every mutable object a document owns, by sort: managers with their tables, records with their attribute
    dictionary and value sets, containers with their record list and identifier map"""
    ids = set()
    for c in [d] + list(d._bundles.values()):
        m = c._namespaces
        ids |= {id(c), id(c._records), id(c._id_map), id(m), id(m._namespaces), id(m._uri_map), id(m._rename_map),
                id(m._prefix_renamed_map)}
        ids |= {id(v) for v in c._id_map.values()}
        for r in c._records:
            ids |= {id(r), id(r._attributes)} | {id(v) for v in r._attributes.values()}
    ids.add(id(d._bundles))
    return ids


def impl_shapes(docs):
    out, closures = [], []
    for i, d in enumerate(docs):
        subs = list(d._bundles.values())
        same = next(j for j, e in enumerate(docs) if e is d)
        stray = sum(1 for c in [d] + subs for r in c._records if r._bundle is not c)
        stray += sum(1 for b in subs if b._namespaces.parent is not d._namespaces)
        cl = _closure(d)
        shared = [0 if docs[j] is d else len(cl & closures[j]) for j in range(i)]
        closures.append(cl)
        out.append([same, 1 + len(subs), len(d._records) + sum(len(b._records) for b in subs), 1 + len(subs),
                    [len(d._records)] + [len(b._records) for b in subs], stray, shared])
    return out


def _cref(c):
    return (int(c[1]), "none") if c[0] == "d" else (int(c[1]), int(c[2]))


NOOP = ["TouchNs", "99999", "none"]          # a call on a handle that does not exist: the model's world stays as it is


def alias_op(im, op, ob, pre_counts, pre_match):
    """the call of Alias.v that stands for the library call just made (None: this program cannot be followed further)"""
    k = op[0]
    failed = ob == "bad-handle" or (isinstance(ob, list) and ob and ob[0] == "raise")
    if k == "NewDoc":
        return ["NewDoc"]
    if k == "NewBundle":
        return NOOP if failed else ["NewBundle", op[1]]
    if k in ("NewRecord", "Factory", "AddRecord", "ElemMethod"):
        i, s = _cref(op[1][1] if k == "ElemMethod" else op[1])
        try:
            c = im.cont(op[1][1] if k == "ElemMethod" else op[1])
        except Exception:
            return NOOP
        delta = len(c._records) - pre_counts.get((i, s), 0)
        return ["AddRecs", str(i), str(s), str(delta)] if delta > 0 else NOOP
    if k in ("AddAttrs", "SetTime", "AddType"):
        i, s = _cref(op[1][1])
        return ["TouchRec", str(i), str(s), str(op[1][2])]
    if k in ("AddNs", "SetDefault", "Resolve", "GetRecord"):
        i, s = _cref(op[1])
        return ["TouchNs", str(i), str(s)]
    if k == "Update":
        if failed:
            return "check-unchanged"
        (i, s), (j, t) = _cref(op[1]), _cref(op[2])
        if s == "none" and t == "none":
            return ["Update", str(i), str(j), ["none" if m is None else str(m) for m in pre_match]]
        return ["UpdateBundle", str(i), str(s), str(j), str(t)]
    if k == "AddBundleDoc":
        return NOOP if failed else ["AddBundleDoc", op[1], op[2]]
    if k == "Flattened":
        return NOOP if failed else ["Flattened", op[1]]
    if k in ("Unified", "LoadJson", "GraphRoundTrip"):
        if failed:
            return NOOP
        nd = im.docs[-1]
        counts = [str(len(nd._records)), [str(len(b._records)) for b in nd._bundles.values()]]
        return (["Unified", op[1]] if k == "Unified" else ["Build"]) + counts
    if k == "DocFromRecords":
        if failed:
            return NOOP
        i, s = _cref(op[1])
        return ["DocFromRecs", str(i), str(s)]
    return NOOP                                 # exporters, comparisons, look-ups: nothing is allocated, nothing linked

class C12Oracle(worldprop.Oracle):
    def before(self, idx, op):
        self.pre = [observable_doc(d) for d in self.im.docs]
        self.ids = [id(d) for d in self.im.docs]
        self.pre_text = [self.text_of(d) for d in self.im.docs]
        if not hasattr(self, "alias_ops"):
            self.alias_ops, self.alias_shapes, self.alias_idx, self.alias_dead = [], [], [], False
        self.pre_counts = {(i, s): len(c._records) for i, d in enumerate(self.im.docs)
                           for s, c in [("none", d)] + list(enumerate(d._bundles.values()))}
        self.pre_match = []
        if op[0] == "Update" and op[1][0] == "d" and op[2][0] == "d":
            try:
                tgt, src = self.im.docs[int(op[1][1])], self.im.docs[int(op[2][1])]
                keys = list(tgt._bundles.keys())
                self.pre_match = [keys.index(b.identifier) if b.identifier in tgt._bundles else None for b in src._bundles.values()]
            except Exception:
                self.pre_match = []
        self.pre_shapes = impl_shapes(self.im.docs) if op[0] == "Update" else None

    def alias_after(self, idx, op, ob):
        if self.alias_dead:
            return
        try:
            a = alias_op(self.im, op, ob, self.pre_counts, self.pre_match)
        except Exception:
            a = None
        now = impl_shapes(self.im.docs)
        if a == "check-unchanged":
            a = NOOP if now == self.pre_shapes else None
        if a is None:
            self.alias_dead = True              # update() that raised half-way: records were added, the rest was not
            return
        self.alias_ops.append(a); self.alias_shapes.append(now); self.alias_idx.append(idx)

    def alias_finish(self):
        """the shapes after every call against the model's (Alias.atrace)"""
        import os
        from harness import common
        from harness.sexp import dumps, loads
        if not getattr(self, "alias_ops", None) or not os.path.exists(common.DRIVER):
            return
        line = common.run_model_batch([dumps(["alias"] + self.alias_ops)])[0]
        m = loads(line)
        if not isinstance(m, list) or len(m) != len(self.alias_shapes):
            self.fail(self.alias_idx[0], "the Alias model did not answer", model=line[:300])
            return
        def norm(x):
            return [norm(y) for y in x] if isinstance(x, list) else int(x)
        for idx, a, want, got in zip(self.alias_idx, self.alias_ops, self.alias_shapes, m):
            if norm(got) != want:
                self.fail(idx, "the object graph differs from the Alias model (C12_no_shared_object / C12_object_frame are "
                               "stated over it): per handle [same-object index, managers, records, bundles, records per "
                               "container, stray pointers, objects shared with each earlier handle]",
                          call=a, implementation=want, model=norm(got))
                return

    @staticmethod
    def text_of(d):
        """the document as printed (prefixes as stored): values that are shared by reference between documents (Literal
        objects, names) are immutable by contract — a call on another document that rewrites one in place shows here"""
        try:
            return d.get_provn()
        except Exception as e:
            return "raised " + type(e).__name__

    def after(self, idx, op, ob):
        self.alias_after(idx, op, ob)
        try:
            t = target_doc(op)
        except Exception:
            t = None
        for i, txt in enumerate(self.pre_text):
            d = self.im.docs[i]
            if i == t or (t is not None and t < len(self.im.docs) and d is self.im.docs[t]):
                continue
            if self.text_of(d) != txt:
                self.fail(idx, "a call changed how a document other than its target prints (a value object shared between "
                               "documents was rewritten in place)", call=op[0], changed_doc=i, target=t)
        for i, obs in enumerate(self.pre):
            if i == t:
                continue
            d = self.im.docs[i]
            if t is not None and t < len(self.im.docs) and d is self.im.docs[t]:
                continue        # the same object under two handles (flattened of a bundle-free document)
            if observable_doc(d) != obs:
                self.fail(idx, "a call changed a document other than its target", call=op[0], changed_doc=i, target=t)
        # no two record objects anywhere share their attribute dictionary or one of its value sets
        owner = {}
        for di, d in enumerate(self.im.docs):
            for c in [d] + list(d.bundles):
                for r in c._records:
                    for key_obj in [r._attributes] + list(r._attributes.values()):
                        o = owner.setdefault(id(key_obj), r)
                        if o is not r:
                            self.fail(idx, "two record objects share mutable attribute state", call=op[0], doc=di,
                                      record=str(r.identifier))
        # a deriving call returns new objects all the way down
        if op[0] in ("Unified", "DocFromRecords") or (op[0] == "Flattened" and isinstance(ob, list) and ob[0] == "handle"
                                                       and int(ob[1]) == len(self.pre)):
            if isinstance(ob, list) and ob[0] == "handle":
                nd = self.im.docs[int(ob[1])]
                olds = self.im.docs[:len(self.pre)]
                old_mgr = {id(x._namespaces) for x in olds} | {id(b._namespaces) for x in olds for b in x.bundles}
                old_recs = {id(r) for x in olds for c in [x] + list(x.bundles) for r in c._records}
                old_bundles = {id(b) for x in olds for b in x.bundles} | {id(x) for x in olds}
                if id(nd) in old_bundles or id(nd._namespaces) in old_mgr:
                    self.fail(idx, "derived document shares its namespace manager or itself with a source", call=op[0])
                for b in nd.bundles:
                    if id(b) in old_bundles or id(b._namespaces) in old_mgr:
                        self.fail(idx, "derived document shares a bundle with a source", call=op[0])
                for c in [nd] + list(nd.bundles):
                    for r in c._records:
                        if id(r) in old_recs:
                            self.fail(idx, "derived document shares a record object with a source", call=op[0])


    def subclass_documents(self, idx):
        """add_bundle(document) converts the document into a new bundle — also when the document is an instance of a
        user-defined subclass of ProvDocument (applications do subclass it): afterwards the two sides are independent"""
        import prov.model as M

        class LabDocument(M.ProvDocument):
            pass
        for cls in (M.ProvDocument, LabDocument):
            src = cls()
            src.add_namespace("ex", "http://example.org/")
            src.entity("ex:e", {"ex:k": 1})
            src.activity("ex:a")
            tgt = M.ProvDocument()
            tgt.add_namespace("ex", "http://example.org/")
            before = observable_doc(src)
            try:
                tgt.add_bundle(src, "ex:attached")
            except Exception as e:
                self.fail(idx, "add_bundle(document) raised", cls=cls.__name__, exc=repr(e)[:200])
                continue
            if observable_doc(src) != before:
                self.fail(idx, "add_bundle(document) changed the document it was given", cls=cls.__name__)
            b = list(tgt.bundles)[0]
            if b is src or b._namespaces is src._namespaces or any(r1 is r2 for r1 in b._records for r2 in src._records):
                self.fail(idx, "add_bundle(document) attached the document itself instead of a new bundle", cls=cls.__name__)
            tb = observable_doc(tgt)
            src.entity("ex:late"); src.add_namespace("zz", "http://zz.test/"); src.set_default_namespace("http://dflt.test/")
            if observable_doc(tgt) != tb:
                self.fail(idx, "changing a document after add_bundle(document) changed the receiving document", cls=cls.__name__)
            sb = observable_doc(src)
            b.agent("ex:in-bundle"); b.add_namespace("yy", "http://yy.test/")
            if observable_doc(src) != sb:
                self.fail(idx, "changing the bundle made by add_bundle(document) changed the source document", cls=cls.__name__)

    def bundle_unified(self, idx):
        """unified() of a bundle that lives in a document returns a bundle of its own: no object of it is reached from the
        source, its manager has no parent in the source, and what its names resolve to does not follow later declarations
        of the source document (nor the other way round) — tried on a deep copy of the world"""
        import copy
        docs = copy.deepcopy(self.im.docs)
        for di, d in enumerate(docs):
            for bi, b in enumerate(list(d._bundles.values())[:3]):
                try:
                    u = b.unified()
                except Exception:
                    continue                                   # conflicting records: C08's business
                cl_u = {id(u), id(u._records), id(u._id_map), id(u._namespaces), id(u._namespaces._namespaces),
                        id(u._namespaces._uri_map), id(u._namespaces._rename_map), id(u._namespaces._prefix_renamed_map)}
                for r in u._records:
                    cl_u |= {id(r), id(r._attributes)} | {id(v) for v in r._attributes.values()}
                if cl_u & _closure(d):
                    self.fail(idx, "bundle.unified() shares objects with the source document", doc=di, bundle=bi)
                probes = ["c12late:thing", "c12bare"]
                def resolve(c):
                    out = []
                    for p in probes:
                        try:
                            q = copy.deepcopy(c).valid_qualified_name(p)
                        except Exception as e:
                            q = type(e).__name__
                        out.append(q.uri if hasattr(q, "uri") else q)
                    return out
                before_u, before_src = resolve(u), (observable_doc(d))
                d.add_namespace("c12late", "http://late.test/ns#")
                if d._namespaces._default is None:
                    d.set_default_namespace("http://late-default.test/")
                if resolve(u) != before_u:
                    self.fail(idx, "declaring a namespace / a default namespace on the source document changed what names resolve "
                                   "to in the bundle bundle.unified() returned", doc=di, bundle=bi, before=before_u, after=resolve(u))
                mid = observable_doc(d)
                try:
                    u.add_namespace("c12res", "http://result.test/")
                    u.set_default_namespace("http://result-default.test/")
                    u.entity("c12res:e")
                except Exception:
                    pass
                if observable_doc(d) != mid:
                    self.fail(idx, "changing the bundle bundle.unified() returned changed the source document", doc=di, bundle=bi)

    def finish(self, ops):
        if len(ops) % 3 == 0:
            self.bundle_unified(len(ops))
        if len(ops) % 7 == 0:
            self.subclass_documents(len(ops))
        # record.copy(): an equal record that shares no mutable state with its source
        import prov.model as M
        idx = len(ops)
        recs = [(di, sj, ri, r) for di, d in enumerate(self.im.docs)
                for sj, c in [("none", d)] + list(enumerate(d._bundles.values())) for ri, r in enumerate(c._records)]
        step = max(1, len(recs) // 12)
        for di, sj, ri, r in recs[::step][:12]:
            # records only: the copy lives in the same bundle (documented), so validating its attribute names may
            # register an inherited namespace in that bundle's own table — not shared record state
            def recs_only():
                return [tuple((k, rs) for k, rs, _ in observable_doc(d)) for d in self.im.docs]
            before = recs_only()
            try:
                cp = r.copy()
            except Exception as e:
                self.fail(idx, "record.copy() raised", exc=repr(e)[:200], record=str(r.identifier))
                continue
            if cp is r or not (cp == r):
                self.fail(idx, "record.copy() is not a new equal record", record=str(r.identifier))
            shared = {id(r._attributes)} | {id(v) for v in r._attributes.values()}
            if id(cp._attributes) in shared or any(id(v) in shared for v in cp._attributes.values()):
                self.fail(idx, "record.copy() shares its attribute dictionary or a value set with the source",
                          record=str(r.identifier))
            names = [a for a, _ in r.extra_attributes][:3] + [M.PROV_LABEL, M.PROV_TYPE]
            for a in names:
                try:
                    cp.add_attributes([(a, "c12-added-to-the-copy")])
                except Exception:
                    pass
            if recs_only() != before:
                self.fail(idx, "changing a copied record changed its source", record=str(r.identifier), doc=di)
            # the same in the store model (Alias.ACopyTouch; C12_copy_leaves_source): the copy is listed nowhere
            if getattr(self, "alias_ops", None) is not None and not getattr(self, "alias_dead", False):
                self.alias_ops.append(["CopyTouch", str(di), str(sj), str(ri)])
                self.alias_shapes.append(impl_shapes(self.im.docs)); self.alias_idx.append(idx)
        self.alias_finish()


def post(g):
    """After the random phase: derive, then mutate either side, repeatedly."""
    rng = g.rng
    for _ in range(rng.choice([1, 2, 3])):
        g.op_derive() if rng.random() < 0.6 else (g.op_update() if rng.random() < 0.5 else g.op_add_bundle_doc())
        for _ in range(rng.choice([1, 2, 3])):
            rng.choice([g.op_ns, g.op_new_record, g.op_add_attrs, g.op_new_bundle, g.op_factory, g.op_add_type,
                        lambda: rebind_default(g)])()


def rebind_default(g):
    """set_default_namespace with a URI of the caller's choice on any container — also one that already has a default
    namespace (for this property a legal follow-up mutation: it must not reach any other document)"""
    from harness.progs import DEFAULTS
    g.emit(["SetDefault", g.pick_cref(), g.rng.choice(DEFAULTS + ["http://rebound.test/"])])


def fixed_programs():
    """a source whose records (document level and in a bundle) use a default namespace, each deriving operation whose
    result re-creates those records, then a default namespace of another URI set on the result, on the source, on the
    source's bundle — every other document must stay as it was"""
    D1, D2 = "http://default.test/", "http://rebound.test/"
    out = []
    derivs = [("Unified", lambda: [["Unified", "0"]]), ("Flattened", lambda: [["Flattened", "0"]]),
              ("DocFromRecords", lambda: [["DocFromRecords", ["d", "0"]]]),
              ("DocFromRecords-bundle", lambda: [["DocFromRecords", ["b", "0", "0"]]]),
              ("Update", lambda: [["NewDoc"], ["Update", ["d", "1"], ["d", "0"]]]),
              ("AddBundleDoc", lambda: [["NewDoc"], ["AddNs", ["d", "1"], "ex", "http://example.org/"],
                                        ["AddBundleDoc", "1", "0", ["S", "ex:attached"], ["ex"]]]),
              ("AddRecord", lambda: [["NewDoc"], ["AddRecord", ["d", "1"], ["r", ["d", "0"], "0"]]])]
    # values that stay Literal objects (a user-defined datatype) travel by reference from the source's records into every
    # derived record: after each deriving call the derived side gets a bundle that binds the datatype's prefix to another
    # URI and re-creates a record carrying the literal there (its datatype is re-homed under a new prefix) — the source,
    # printed, must read exactly as before
    U1, U2 = "http://example.org/one/", "http://example.org/two/"
    for name, mk in derivs:
        if name in ("DocFromRecords-bundle", "AddRecord"):
            continue
        p = [["NewDoc"], ["AddNs", ["d", "0"], "ex", U1],
             ["NewRecord", ["d", "0"], "Entity", ["S", "ex:e"], [[["S", "ex:p"], ["lit", "v", ["qn", "ex", U1, "t"], "none"]], [["S", "ex:q"], ["int", "1"]]]],
             ["NewRecord", ["d", "0"], "Activity", ["S", "ex:a"], []]]
        if name != "AddBundleDoc":
            p += [["NewBundle", "0", ["S", "ex:b0"]],
                  ["NewRecord", ["b", "0", "0"], "Entity", ["S", "ex:e"], [[["S", "ex:p"], ["lit", "w", ["qn", "ex", U1, "t"], "none"]]]]]
        p += [o if o != ["AddNs", ["d", "1"], "ex", "http://example.org/"] else ["AddNs", ["d", "1"], "ex", U1] for o in mk()]
        p += [["ExportProvn", "0"], ["ExportJson", "0"],
              ["NewBundle", "1", ["Q", "zz", "http://zz.test/", "late"]]]
        # the new bundle is the last one of document 1
        last = {"Unified": "1", "Flattened": "0", "DocFromRecords": "0", "Update": "1", "AddBundleDoc": "1"}[name]
        p += [["AddNs", ["b", "1", last], "ex", U2],
              ["AddRecord", ["b", "1", last], ["r", (["b", "1", "0"] if name == "AddBundleDoc" else ["d", "1"]), "0"]],
              ["ExportProvn", "0"], ["ExportJson", "0"], ["ExportProvn", "1"]]
        out.append(p)
    # a bundle whose names resolve through its document (it declares nothing itself) and holds records to be merged, a
    # document whose default namespace was adopted from a name: deriving must leave the declarations of both as they were
    EXU = "http://example.org/"
    for walker in (["Unified", "0"], ["Flattened", "0"], ["ToGraph", "0"], ["DocFromRecords", ["b", "0", "0"]]):
        out.append([["NewDoc"], ["AddNs", ["d", "0"], "ex", EXU], ["NewBundle", "0", ["S", "ex:b"]],
                    ["NewRecord", ["b", "0", "0"], "Entity", ["S", "ex:e"], [[["S", "ex:k"], ["str", "v1"]]]],    # (names as strings only: they resolve through the document, the bundle registers nothing)
                    ["NewRecord", ["b", "0", "0"], "Entity", ["S", "ex:e"], [[["S", "ex:k2"], ["int", "2"]]]],
                    ["NewRecord", ["d", "0"], "Agent", ["Q", "", D1, "ag"], []], ["NewRecord", ["d", "0"], "Agent", ["Q", "", D1, "ag"], [[["S", "ex:k"], ["int", "1"]]]],
                    walker, walker])
    # records holding several values under one formal attribute (a membership listing several entities, built with the
    # collection given as a QualifiedName): each deriving operation, then attributes in a namespace nobody has declared
    # yet on every record of the result, then on every record of the source
    PROVU = "http://www.w3.org/ns/prov#"
    for name, mk in derivs:
        if name in ("DocFromRecords-bundle", "AddRecord"):
            continue
        p = [["NewDoc"], ["AddNs", ["d", "0"], "ex", EXU],
             ["NewRecord", ["d", "0"], "Entity", ["S", "ex:c"], []], ["NewRecord", ["d", "0"], "Entity", ["S", "ex:e1"], []],
             ["NewRecord", ["d", "0"], "Membership", "none", [[["Q", "prov", PROVU, "collection"], ["str", "ex:c"]],
                                                              [["Q", "prov", PROVU, "entity"], ["str", "ex:e1"]],
                                                              [["Q", "prov", PROVU, "entity"], ["str", "ex:e2"]]]],
             ["NewBundle", "0", ["S", "ex:b"]],
             ["NewRecord", ["b", "0", "0"], "Membership", "none", [[["Q", "prov", PROVU, "collection"], ["str", "ex:bc"]],
                                                                   [["Q", "prov", PROVU, "entity"], ["str", "ex:m1"]],
                                                                   [["Q", "prov", PROVU, "entity"], ["str", "ex:m2"]]]]]
        if name == "AddBundleDoc":
            p = [o for o in p if o[0] != "NewBundle" and not (o[0] == "NewRecord" and o[1][0] == "b")]
        p += mk()
        for target_doc_ in ("1", "0"):
            for ri in ("0", "1", "2", "3"):
                p.append(["AddAttrs", ["r", ["d", target_doc_], ri], [[["Q", "zz" + target_doc_, "http://zz.test/" + target_doc_ + "/", "k"], ["int", "1"]]]])
        out.append(p)
    for src_explicit in (True, False):
        for name, mk in derivs:
            for first in ("result", "source", "source-bundle"):
                p = [["NewDoc"]]
                if src_explicit:
                    p.append(["SetDefault", ["d", "0"], D1])
                p += [["AddNs", ["d", "0"], "ex", "http://example.org/"],
                      ["NewRecord", ["d", "0"], "Entity", ["Q", "", D1, "e1"], [[["Q", "", D1, "k"], ["qn", "", D1, "v"]]]],
                      ["NewBundle", "0", ["S", "ex:b"]],
                      ["NewRecord", ["b", "0", "0"], "Entity", ["Q", "", D1, "e2"], []]]
                if name == "AddBundleDoc":
                    p = [o for o in p if o[0] != "NewBundle" and not (o[0] == "NewRecord" and o[1][0] == "b")]
                if name == "DocFromRecords-bundle" or name.startswith("DocFromRecords") and False:
                    pass
                p += mk()
                targets = {"result": ["d", "1"], "source": ["d", "0"], "source-bundle": ["b", "0", "0"]}
                order = [first] + [t for t in ("result", "source", "source-bundle") if t != first]
                for t in order:
                    if t == "source-bundle" and name == "AddBundleDoc":
                        continue
                    p.append(["SetDefault", targets[t], D2 if t == first else D2 + t + "/"])
                    p.append(["NewRecord", targets[t], "Entity", ["S", "late"], []])
                out.append(p)
    return out


def nontrivial(ops):
    der = [i for i, o in enumerate(ops) if o[0] in ("Unified", "Flattened", "DocFromRecords", "Update", "AddBundleDoc", "AddRecord")]
    return bool(der) and any(o[0] in MUTATORS for o in ops[der[0] + 1:])


def alias_correspondence(tier, seed):
    """what the object-graph comparison covered (the comparison itself runs inside the oracle, on every program of the
    check): the fixed programs and a sample of generated ones are followed once more in this process and the calls
    handed to Alias.atrace are counted by kind"""
    import random
    from collections import Counter
    from harness import progs
    rng = random.Random(seed * 17 + 3)
    programs = list(fixed_programs())
    for i in range(60 if tier == "quick" else 600):
        g = progs.Gen(random.Random(rng.randrange(1 << 60)), rng.choice(["merge", "mixed"]))
        g.observe_each = False
        try:
            g.run(rng.randrange(6, 24))
            post(g)
        except Exception:
            continue
        programs.append(g.ops)
    hist, n_prog, n_calls, dead, bad = Counter(), 0, 0, 0, []
    for ops in programs:
        o = C12Oracle()
        try:
            for idx, op in enumerate(ops):
                if op[0] == "ObserveAll":
                    continue
                o.before(idx, op)
                ob = o.im.step(op)
                o.alias_after(idx, op, ob)
            o.finish([op for op in ops if op[0] != "ObserveAll"] + [["pad"]] * 3)      # the record.copy() part, then the comparison
        except Exception:
            continue
        n_prog += 1
        n_calls += len(getattr(o, "alias_ops", []))
        dead += 1 if getattr(o, "alias_dead", False) else 0
        for a in getattr(o, "alias_ops", []):
            hist["no-op (exporter, look-up, refused call)" if a is NOOP else a[0]] += 1
        bad.extend({"kind": "failing-input", "failure": f, "program": ops} for f in o.fails[:1])
    return {"programs": n_prog, "calls_compared": n_calls, "abandoned_after_half_done_update": dead, "calls_by_kind": dict(hist)}, bad


def run(tier, seed, log, model_runs=True, enlarged=False):
    res = _run(tier, seed, log, model_runs, enlarged)
    if model_runs:
        cov, bad = alias_correspondence(tier, seed)
        res["coverage"]["distribution"]["object_graph_vs_Alias_model"] = cov
        res["violations"].extend(bad[:2])
        log("object graph against Alias.v: %d programs, %d calls compared" % (cov["programs"], cov["calls_compared"]))
    return res


def _run(tier, seed, log, model_runs=True, enlarged=False):
    return worldprop.run(PROP, tier, seed, log, model_runs, enlarged, C12Oracle, ["merge", "mixed"],
                         n_quick=200, n_thorough=3000, post=post, nontrivial=nontrivial,
                         ops_range_quick=(6, 20), ops_range_thorough=(8, 40),
                         rule_text="API programs: a random phase, then rounds of one deriving operation (unified, flattened, "
                                   "document from records, update, add_bundle of a document, add_record) followed by mutators on "
                                   "arbitrary documents (namespaces, default namespace — also re-bound to another URI —, records, attributes, bundles), plus 42 fixed programs (default-namespace records, each deriving operation, then another default namespace on result, source and source bundle); after every "
                                   "call the strict content, record order, registered namespaces and default namespace of every "
                                   "document other than the call's target must be unchanged, derived documents must consist "
                                   "of new objects, and no two record objects may share their attribute dictionary or a value set; at the end sampled records are copied with record.copy() and the copy is changed under existing and "
                                   "new attribute names; after every call the object graph of every document (managers with their tables, records with "
                                   "their attribute dictionaries and value sets, containers, by id()) is compared with the one the Alias model "
                                   "(coq/theories/Alias.v, over which C12_no_shared_object and C12_object_frame are proved) builds for the same calls: "
                                   "objects per sort, records per container, stray _bundle / parent pointers, objects shared between handles; "
                                   "non-trivial = a deriving call followed by a mutator",
                         extra_cases=fixed_programs() + __import__('harness.progs', fromlist=['x']).same_text_programs((), derive=True, memberships=True),
                         theorem_note="C12_frame over Interp.step; C12_no_shared_object, C12_object_frame over Alias.astep")


def replay(path, log):
    return worldprop.replay(path, C12Oracle, log)
