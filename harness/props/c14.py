"""C14 — graph conversion mirrors the document and converts back to its unified form."""
from collections import Counter

from harness import worldprop, impl as I
from harness.content import strict_rec, strict_cont

PROP = "C14"
TRUSTED_BASE = [
    "Coq 8.16.1 kernel (coqc); vm_compute for Examples; no native_compute",
    "model: coq/theories/Graph.v (prov_to_graph with node_map keyed by identifier, endpoint inference through the generated "
    "INFERRED_ELEMENT_CLASS table, the skip on KeyError after a possibly inserted first endpoint; graph_to_prov with "
    "networkx's adjacency iteration order); tied to /repo by ToGraph/GraphRoundTrip in the correspondence programs",
    "networkx is a trusted container (node identity = record __hash__/__eq__, parallel edges kept)",
    "extraction: ExtrOcamlBasic + ExtrOcamlString; ocaml/driver.ml",
]
ASSUMPTIONS = ["bundle-free documents (property quantifier); influence relations with an undeclared endpoint are skipped as documented"]

PROVU = "http://www.w3.org/ns/prov#"
# endpoint roles of PROV-DM: which kind of element each reference-valued argument denotes
ROLE_KIND = {"entity": "Entity", "activity": "Activity", "agent": "Agent", "trigger": "Entity", "generatedEntity": "Entity",
             "usedEntity": "Entity", "delegate": "Agent", "responsible": "Agent", "specificEntity": "Entity",
             "generalEntity": "Entity", "alternate1": "Entity", "alternate2": "Entity", "collection": "Entity",
             "informed": "Activity", "informant": "Activity", "plan": "Entity", "ender": "Entity", "starter": "Entity"}


def expected(u):
    """Specification of the graph of a unified bundle-free document u."""
    import prov.model as M
    elements = [r for r in u.get_records() if r.is_element()]
    declared = {}
    for r in elements:
        declared[r.identifier.uri] = I.KIND_OF[type(r)]
    nodes = Counter((I.KIND_OF[type(r)], r.identifier.uri, True, strict_rec(r)) for r in elements)
    known = dict(declared)
    edges = Counter()
    back = []
    for r in u.get_records():
        if not r.is_relation():
            continue
        fa = r.formal_attributes[:2]
        (a1, v1), (a2, v2) = fa
        if v1 is None or v2 is None:
            continue
        k1, k2 = ROLE_KIND.get(a1.localpart), ROLE_KIND.get(a2.localpart)
        ok = True
        pending = {}
        for a, v, k in ((a1, v1, k1), (a2, v2, k2)):
            if v.uri not in known and v.uri not in pending:
                if k is None:
                    ok = False
                    break
                pending[v.uri] = k
        # an endpoint inferred before the failing one stays known (as the code does)
        if not ok:
            for uri, k in pending.items():
                known[uri] = k
            continue
        for uri, k in pending.items():
            known[uri] = k
            nodes[(k, uri, False, None)] += 1
        edges[(v1.uri, v2.uri, strict_rec(r))] += 1
        back.append(r)
    return elements, nodes, edges, back


class C14Oracle(worldprop.Oracle):
    def after(self, idx, op, ob):
        if op[0] in ("NewRecord", "Factory", "ElemMethod", "AddAttrs", "AddRecord", "ToGraph"):
            for di in range(len(self.im.docs)):
                self.check(idx, di)

    def check(self, idx, di):
        import prov.model as M
        from prov.graph import prov_to_graph, graph_to_prov
        d = self.im.docs[di]
        if d._bundles:
            return
        try:
            u = d.unified()
        except M.ProvException:
            return
        try:
            g = prov_to_graph(d)
        except Exception as e:
            self.fail(idx, "prov_to_graph raised", doc=di, exc=repr(e)[:300])
            return
        elements, want_nodes, want_edges, back = expected(u)
        got_nodes = Counter()
        for n in g.nodes():
            if not isinstance(n, M.ProvRecord):
                self.fail(idx, "a node is not a record", doc=di, node=repr(n))
                continue
            decl = n.bundle is not None
            got_nodes[(I.KIND_OF[type(n)], n.identifier.uri, decl, strict_rec(n) if decl else None)] += 1
        if got_nodes != want_nodes:
            self.fail(idx, "graph nodes differ from the elements of the unified document plus inferred endpoints", doc=di,
                      missing=repr(list((want_nodes - got_nodes).keys())[:3])[:500],
                      extra=repr(list((got_nodes - want_nodes).keys())[:3])[:500])
        got_edges = Counter()
        for a, b, data in g.edges(data=True):
            r = data.get("relation")
            if not isinstance(r, M.ProvRecord):
                self.fail(idx, "an edge carries no relation", doc=di)
                continue
            got_edges[(a.identifier.uri, b.identifier.uri, strict_rec(r))] += 1
        if got_edges != want_edges:
            self.fail(idx, "graph edges differ from the two-ended relations of the unified document", doc=di,
                      missing=repr(list((want_edges - got_edges).keys())[:2])[:600],
                      extra=repr(list((got_edges - want_edges).keys())[:2])[:600])
        try:
            d2 = graph_to_prov(g)
        except Exception as e:
            self.fail(idx, "graph_to_prov raised", doc=di, exc=repr(e)[:300])
            return
        want_back = Counter(strict_rec(r) for r in elements) + Counter(strict_rec(r) for r in back)
        if strict_cont(d2) != want_back or len(list(d2.bundles)) != 0:
            self.fail(idx, "graph_to_prov(prov_to_graph(d)) is not the unified document restricted to elements and "
                           "two-ended relations", doc=di,
                      missing=repr(list((want_back - strict_cont(d2)).keys())[:2])[:600],
                      extra=repr(list((strict_cont(d2) - want_back).keys())[:2])[:600])


def nontrivial(ops):
    return sum(1 for o in ops if o[0] in ("NewRecord", "Factory")) >= 3


def run(tier, seed, log, model_runs=True, enlarged=False):
    return worldprop.run(PROP, tier, seed, log, model_runs, enlarged, C14Oracle, ["graph"],
                         n_quick=150, n_thorough=2500, nontrivial=nontrivial,
                         ops_range_quick=(6, 22), ops_range_thorough=(8, 40),
                         rule_text="bundle-free API programs (declared and undeclared endpoints, repeated identifiers, parallel "
                                   "relations, self-loops, relations lacking an endpoint, influence relations) with ToGraph/"
                                   "GraphRoundTrip calls compared against the model; oracle: after every record-changing call "
                                   "the graph of every bundle-free document is compared with an independent specification "
                                   "(elements of unified() + inferred endpoints by PROV-DM role, one edge per two-ended "
                                   "inferable relation) and graph_to_prov with the restricted unified content",
                         theorem_note="C14_* over Graph.graph_of_unified / graph_to_prov")


def replay(path, log):
    return worldprop.replay(path, C14Oracle, log)
