"""worldprop.py — common driver of the checks whose cases are API programs:
corpus + generated programs, implementation vs extracted model (correspondence),
the property's direct oracle on the implementation, shrinking, known findings,
coverage numbers."""
import json
import os
import random
import signal
import time
import traceback
import logging
logging.disable(logging.CRITICAL)
from collections import Counter
from multiprocessing import Pool

from harness import common, corr, impl as I, progs
from harness.sexp import dumps, loads


class Oracle:
    """Re-executes a program on a fresh interpreter with hooks around every op."""
    sample_every = 1

    def __init__(self):
        self.im = I.Impl()
        self.fails = []

    def fail(self, idx, what, **detail):
        self.fails.append(dict(op=idx, what=what, **detail))

    def before(self, idx, op):
        pass

    def after(self, idx, op, ob):
        pass

    def finish(self, ops):
        pass

    def run(self, ops):
        for idx, op in enumerate(ops):
            if op[0] == "ObserveAll":
                continue
            self.before(idx, op)
            ob = self.im.step(op)
            self.after(idx, op, ob)
        self.finish(ops)
        return self.fails


def run_oracle(oracle_cls, ops, limit=30):
    signal.signal(signal.SIGALRM, I._alarm)
    signal.alarm(limit)
    try:
        return ("ok", oracle_cls().run(ops))
    except I.Timeout:
        return ("timeout", [])
    except Exception:
        return ("error", traceback.format_exc()[-2000:])
    finally:
        signal.alarm(0)


_ctx = {}


def _job(args):
    seed, n_ops, profile = args
    post = _ctx.get("post")
    oracle_cls = _ctx["oracle"]
    signal.signal(signal.SIGALRM, I._alarm)
    signal.alarm(90)
    try:
        rng = random.Random(seed)
        g = progs.Gen(rng, profile)
        g.run(n_ops)
        if post is not None:
            post(g)
        ops, obs = g.ops, g.obs
    except I.Timeout:
        return ("gen-timeout", seed, None, None)
    except Exception:
        return ("gen-error", seed, traceback.format_exc()[-2000:], None)
    finally:
        signal.alarm(0)
    st, fails = run_oracle(oracle_cls, ops)
    return ("ok", ops, obs, (st, fails))


def _corpus_job(ops):
    oracle_cls = _ctx["oracle"]
    signal.signal(signal.SIGALRM, I._alarm)
    signal.alarm(60)
    try:
        obs = I.run_program(ops, 60)
    except I.Timeout:
        return ("gen-timeout", ops, None, None)
    finally:
        signal.alarm(0)
    st, fails = run_oracle(oracle_cls, ops)
    return ("ok", ops, obs, (st, fails))


def shrink(ops, still_fails, budget=150):
    cur = [o for o in ops if o[0] != "ObserveAll"]
    n = 2
    calls = 0
    while len(cur) >= 2 and calls < budget:
        chunk = max(1, len(cur) // n)
        reduced = False
        for i in range(0, len(cur), chunk):
            cand = cur[:i] + cur[i + chunk:]
            calls += 1
            if cand and still_fails(cand):
                cur = cand
                n = max(n - 1, 2)
                reduced = True
                break
            if calls >= budget:
                break
        if not reduced:
            if chunk == 1:
                break
            n = min(n * 2, len(cur))
    return cur


def with_observes(ops):
    out = []
    for o in ops:
        out.append(o)
        if o[0] != "ObserveAll":
            out.append(["ObserveAll"])
    return out


def run(prop, tier, seed, log, model_runs, enlarged, oracle_cls, profiles, n_quick, n_thorough,
        ops_range_quick=(6, 24), ops_range_thorough=(8, 45), post=None, classify=None,
        nontrivial=None, rule_text="", extra_cases=None, theorem_note=""):
    """classify(failure, ops) -> known-finding id or None."""
    t0 = time.time()
    _ctx["oracle"] = oracle_cls
    _ctx["post"] = post
    rng = random.Random(seed)
    count = n_quick if tier == "quick" else n_thorough
    if enlarged:
        count *= 4
    rng_ops = ops_range_quick if tier == "quick" else ops_range_thorough
    jobs = []
    for i in range(count):
        prof = profiles[i % len(profiles)]
        jobs.append((rng.randrange(1 << 60), rng.randrange(*rng_ops), prof))
    corpus = []
    cdir = os.path.join(common.VERIF, "corpus", prop)
    if os.path.isdir(cdir):
        for f in sorted(os.listdir(cdir)):
            if f.endswith(".json"):
                corpus.append(with_observes([o for o in json.load(open(os.path.join(cdir, f)))["program"]
                                             if o[0] != "ObserveAll"]))
    if extra_cases:
        corpus.extend(with_observes(c) for c in extra_cases)
    with Pool(common.NCPU) as pool:
        res_c = pool.map(_corpus_job, corpus, chunksize=2) if corpus else []
        res_g = pool.map(_job, jobs, chunksize=4)
    results = res_c + res_g
    log("implementation + oracle ran %d programs (%d corpus/fixed) in %.1fs" % (len(results), len(corpus), time.time() - t0))

    good = [(o, b, orc) for st, o, b, orc in results if st == "ok"]
    gen_bad = [r for r in results if r[0] != "ok"]

    known = common.load_known_findings()
    open_classes = {k["id"]: k for k in known if k["property"] == prop and k["status"] == "open"}
    violations, disagreements = [], []
    known_hit = Counter()
    for r in gen_bad[:3]:
        violations.append({"kind": "failing-input" if r[0] == "gen-timeout" else "harness-error",
                           "what": "program generation on the implementation: " + r[0], "detail": str(r[2])[:1500],
                           "gen_seed": r[1] if not isinstance(r[1], list) else None})

    # ---- correspondence
    model_lines = None
    ood = 0
    if model_runs:
        t1 = time.time()
        model_lines = corr.model_run([o for o, _, _ in good])
        log("model ran %d programs in %.1fs" % (len(good), time.time() - t1))
        for (ops, obs, _), line in zip(good, model_lines):
            if corr.is_ood(line):
                ood += 1
                continue
            d = corr.compare(ops, obs, line)
            if d:
                disagreements.append({"program": ops, "first_difference": d[1][:1500], "at_op": d[0]})

    # ---- oracle results
    op_hist, res_hist, len_hist = Counter(), Counter(), Counter()
    distinct = set()
    n_steps = 0
    for ops, obs, (ost, fails) in good:
        real = [o for o in ops if o[0] != "ObserveAll"]
        len_hist[len(real) // 10 * 10] += 1
        for o, b in zip(ops, obs):
            if o[0] == "ObserveAll":
                continue
            n_steps += 1
            op_hist[o[0]] += 1
            if isinstance(b, list) and b and b[0] == "raise":
                res_hist["raise:" + b[1]] += 1
            elif b == "bad-handle":
                res_hist["bad-handle"] += 1
            else:
                res_hist["ok"] += 1
        if nontrivial is None or nontrivial(real):
            distinct.add(dumps(real))
        if ost == "error":
            violations.append({"kind": "harness-error", "what": "oracle crashed", "detail": fails, "program": real})
            continue
        if ost == "timeout":
            violations.append({"kind": "failing-input", "what": "implementation did not terminate within the time limit",
                               "program": real})
            continue
        seen = set()
        for f in fails:
            cls = classify(f, ops) if classify else None
            if cls in open_classes:
                known_hit[cls] += 1
                continue
            if f["what"] in seen:
                continue
            seen.add(f["what"])
            violations.append({"kind": "failing-input", "failure": f, "program": real})

    # ---- shrink (bounded)
    def shrink_v(v):
        if v.get("kind") != "failing-input" or "failure" not in v:
            return v
        what = v["failure"]["what"]

        def still(c):
            st, fl = run_oracle(oracle_cls, c, 20)
            return st == "ok" and any(f["what"] == what and not (classify and classify(f, c) in open_classes) for f in fl)
        small = shrink(v["program"], still)
        st, fl = run_oracle(oracle_cls, small, 20)
        fl = [f for f in fl if f["what"] == what and not (classify and classify(f, small) in open_classes)] if st == "ok" else []
        if fl:
            v["program"] = small
            v["failure"] = fl[0]
        return v

    def key_of(v):
        return v.get("failure", {}).get("what", v.get("what"))
    uniq = {}
    for v in violations:
        uniq.setdefault(key_of(v), v)
    violations = [shrink_v(v) for v in list(uniq.values())[:4]]

    def shrink_d(dg):
        def still(c):
            try:
                obs = I.run_program(with_observes(c), 20)
            except Exception:
                return False
            line = common.run_model_batch([corr.request_text(with_observes(c))])[0]
            return (not corr.is_ood(line)) and corr.compare(with_observes(c), obs, line) is not None
        small = shrink(dg["program"], still, budget=120)
        full = with_observes(small)
        try:
            obs = I.run_program(full, 20)
            line = common.run_model_batch([corr.request_text(full)])[0]
            d = corr.compare(full, obs, line)
            if d:
                dg = {"program": small, "first_difference": d[1][:1500], "at_op": d[0]}
        except Exception:
            pass
        dg["theorem"] = "correspondence Interp.step ~ prov.model (the theorems of this property are stated over the model); " + theorem_note
        return dg
    disagreements = [shrink_d(d) for d in disagreements[:2]]

    # ---- known findings: replay the witnesses
    known_lines = []
    for fid, k in sorted(open_classes.items()):
        w = k.get("witness_program")
        if not w:
            continue
        st, fl = run_oracle(oracle_cls, w, 20)
        if st == "ok" and any((classify(f, w) if classify else None) == fid for f in fl):
            known_lines.append("%s: %s" % (fid, k["what_fails"]))

    sample = [o for o in (good[len(corpus)][0] if len(good) > len(corpus) else good[0][0]) if o[0] != "ObserveAll"] if good else []
    coverage = {
        "evaluations": len(good),
        "distinct_nontrivial": len(distinct),
        "rule": rule_text,
        "samples": [sample[:12], [o for o in good[-1][0] if o[0] != "ObserveAll"][:12]] if good else [],
        "traces_validated_against_impl": len(good) - ood if model_lines is not None else 0,
        "api_calls_executed": n_steps,
        "disagreements_checked": len(disagreements),
        "exhaustive": False,
        "distribution": {"program_length_buckets": dict(len_hist), "ops": dict(op_hist), "results": dict(res_hist),
                         "out_of_domain_programs": ood, "corpus_and_fixed_programs": len(corpus),
                         "known_finding_hits": dict(known_hit)},
    }
    return {"violations": violations, "known": known_lines, "coverage": coverage, "disagreements": disagreements}


def replay(path, oracle_cls, log):
    r = json.load(open(path))
    p = r.get("program")
    if not p:
        print(json.dumps(r, indent=1)[:4000])
        return 0
    full = with_observes([o for o in p if o[0] != "ObserveAll"])
    obs = I.run_program(full, 60)
    for o, b in zip(full, obs):
        if o[0] != "ObserveAll":
            print("  ", dumps(o)[:300], "->", dumps(b)[:200])
    st, fl = run_oracle(oracle_cls, full, 60)
    print("oracle:", st, json.dumps(fl, indent=1, default=str)[:3000])
    if os.path.exists(common.DRIVER):
        line = common.run_model_batch([corr.request_text(full)])[0]
        print("impl/model:", corr.compare(full, obs, line))
    return 1 if fl else 0
