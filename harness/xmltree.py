"""xmltree.py — the generic element tree of an XML text (lxml is the trusted generic
parser, as json.loads is for PROV-JSON) in the s-expression form XmlSpec.px_xnode reads:
(e ns local ((ans alocal value)...) ((prefix uri)...) text (children...))."""
from lxml import etree


def split(tag):
    if isinstance(tag, str) and tag.startswith("{"):
        ns, local = tag[1:].split("}", 1)
        return ns, local
    return "", tag


def node(el):
    ns, local = split(el.tag)
    attrs = []
    for k, v in el.attrib.items():
        ans, al = split(k)
        attrs.append([ans, al, v])
    scope = [["" if p is None else p, u] for p, u in sorted(el.nsmap.items(), key=lambda kv: kv[0] or "")]
    scope.append(["xml", "http://www.w3.org/XML/1998/namespace"])
    kids = [node(c) for c in el if isinstance(c.tag, str)]
    text = (el.text or "") if not kids else ""
    return ["e", ns, local, attrs, scope, text, kids]


def tree_of(text):
    root = etree.fromstring(text.encode("utf-8") if isinstance(text, str) else text)
    return node(root)


def leaf_texts(t, out):
    if not t[6] and len(t[5]) < 40:
        out.add(t[5])
    for k in t[6]:
        leaf_texts(k, out)
    return out
