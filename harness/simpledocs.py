"""simpledocs.py — documents in the intersection of the C01/C02/C07 spaces (every name
in a namespace declared under a non-empty prefix on the document, non-empty bundles,
each identifier on records of one kind, relations with their first two arguments,
no mention, no floats / foreign-typed literals), with non-ASCII content."""
import datetime
import random

import prov.model as M
from prov.identifier import Identifier, Namespace, QualifiedName

EX = Namespace("ex", "http://example.org/")
EX2 = Namespace("ex2", "http://example.org/2/")
STRINGS = ["plain", "ünïcødé ファイル", 'quo"te', "two\nlines", "\U0001F600 astral", "<a&b>", "back\\slash", "  spaced ",
           "line\u2028separator", "paragraph\u2029separator", "next\u0085line", "tab\there",
           # valid Unicode that is not in normalisation form C (decomposed accent, singletons): must come back as typed
           "Ame\u0301lie", "\u212b ngstro\u0308m \u2126", "It\x92s \x7f", "\ufdd0\U0001fffe"]
TIMES = [datetime.datetime(2012, 3, 31, 9, 21), datetime.datetime(1999, 12, 31, 23, 59, 59, 999000),
         datetime.datetime(2012, 3, 31, 9, 21, tzinfo=datetime.timezone.utc),
         datetime.datetime(2020, 2, 29, 12, 0, tzinfo=datetime.timezone(datetime.timedelta(hours=5, minutes=30)))]


def value(rng):
    r = rng.random()
    if r < 0.3:
        return rng.choice(STRINGS)
    if r < 0.45:
        return rng.choice([0, 1, -7, 2 ** 40, 10 ** 25])
    if r < 0.55:
        return rng.choice([True, False])
    if r < 0.68:
        return rng.choice(TIMES)
    if r < 0.78:
        return Identifier("http://example.org/uri/%d" % rng.randrange(5))
    if r < 0.9:
        return rng.choice([EX, EX2])["v%d" % rng.randrange(5)]
    return M.Literal(rng.choice(STRINGS), langtag=rng.choice(["en", "fr-CA", "en-gb", "EN", "zh-hant-TW"]))


def attrs(rng, n=None):
    out = []
    for _ in range(rng.choice([0, 1, 2, 3]) if n is None else n):
        k = rng.choice([EX["k"], EX2["size"], EX["ünï"], "prov:label", "prov:type", "prov:role", "prov:location", "prov:value"])
        if k == "prov:label":
            v = rng.choice(STRINGS + [M.Literal("étiquette", langtag="fr")])
        elif k == "prov:value":
            v = value(rng)
            if isinstance(v, bool):
                v = "v"
        else:
            v = value(rng)
        if k == "prov:type" and isinstance(v, QualifiedName):
            v = EX["MyType"]
        out.append((k, v))
    # one prov:value at most
    seen_value = False
    res = []
    for k, v in out:
        if k == "prov:value":
            if seen_value:
                continue
            seen_value = True
        res.append((k, v))
    return res


def fill(rng, c, tag, nrel):
    es = [c.entity(EX["%se%d" % (tag, i)], attrs(rng)) for i in range(rng.choice([1, 2, 3]))]
    acts = [c.activity(EX["%sa%d" % (tag, i)], rng.choice([None] + TIMES[:2]), rng.choice([None] + TIMES[:2]), attrs(rng))
            for i in range(rng.choice([1, 2]))]
    ags = [c.agent(EX2["%sag%d" % (tag, i)], attrs(rng)) for i in range(rng.choice([1, 2]))]
    n = 0
    mode = {}          # (relation kind, subject) -> identified?  (a subject does not carry an identified
                       # and an anonymous relation of the same kind: property quantifier)
    for _ in range(nrel):
        k = rng.randrange(12)
        e, e2, a, a2, g, g2 = rng.choice(es), rng.choice(es), rng.choice(acts), rng.choice(acts), rng.choice(ags), rng.choice(ags)
        n += 1
        subj = {0: e, 1: a, 2: a, 3: a, 4: e, 5: e, 6: e, 7: a, 8: g, 9: e, 10: e, 11: e}[k]
        want_id = mode.setdefault((k, subj.identifier.uri), rng.random() < 0.5)
        ident = EX["%sr%d" % (tag, n)] if want_id else None
        # an anonymous relation may be attributed (optional arguments, time, extra attributes) for the kinds
        # whose qualified form the reader can re-attach: generation, usage, start, invalidation, derivation,
        # association (property quantifier)
        attributed = ident is None and k in (0, 1, 3, 4, 5, 7) and rng.random() < 0.5
        oa = attrs(rng) if (ident is not None or attributed) else None
        if oa and ident is None:
            oa = [(a, v) for a, v in oa if a != "prov:type"] or None
        t = rng.choice([None] + TIMES)
        qualified = ident is not None or attributed
        if k == 0:
            c.wasGeneratedBy(e, a, t if qualified else None, identifier=ident, other_attributes=oa)
        elif k == 1:
            c.used(a, e, t if qualified else None, identifier=ident, other_attributes=oa)
        elif k == 2:
            c.wasInformedBy(a, a2, identifier=ident, other_attributes=oa)
        elif k == 3:
            c.wasStartedBy(a, e, a2 if (qualified and rng.random() < 0.5) else None, t if qualified else None,
                           identifier=ident, other_attributes=oa)
        elif k == 4:
            c.wasInvalidatedBy(e, a, t if qualified else None, identifier=ident, other_attributes=oa)
        elif k == 5:
            c.wasDerivedFrom(e, e2, a if (qualified and rng.random() < 0.5) else None, identifier=ident, other_attributes=oa)
        elif k == 6:
            c.wasAttributedTo(e, g, identifier=ident, other_attributes=oa)
        elif k == 7:
            c.wasAssociatedWith(a, g, e if (qualified and rng.random() < 0.5) else None, identifier=ident, other_attributes=oa)
        elif k == 8:
            c.actedOnBehalfOf(g, g2, a if (qualified and rng.random() < 0.5) else None, identifier=ident, other_attributes=oa)
        elif k == 9:
            c.wasInfluencedBy(e, e2, identifier=ident, other_attributes=oa)
        elif k == 10:
            c.specializationOf(e, e2)
        else:
            c.alternateOf(e, e2)


def simple_doc(rng, bundles=True):
    d = M.ProvDocument()
    d.add_namespace(EX)
    d.add_namespace(EX2)
    fill(rng, d, "", rng.choice([0, 1, 2, 4]))
    if bundles and rng.random() < 0.4:
        for j in range(rng.choice([1, 2])):
            b = d.bundle(EX["bundle%d" % j])
            fill(rng, b, "b%d" % j, rng.choice([1, 2]))
    return d


def big_doc(rng, n_entities):
    """a document of the same space whose serialisations exceed the usual stream buffer sizes (8 KiB, 64 KiB),
    dense in multi-byte characters (so that any chunk boundary is likely to fall inside one)"""
    d = simple_doc(rng)
    words = ["ファイル名", "ünïcødé", "\U0001F600\U0001F680", "данные", "数据"]
    for i in range(n_entities):
        w = rng.choice(words)
        d.entity(EX["big%d" % i], [(EX["note"], w * rng.randrange(12, 40)), ("prov:label", M.Literal(w * 3 + str(i), langtag="ja"))])
    return d


def all_strings_doc():
    """one fixed document holding every string of the pool once (as an attribute value, as a label, language-tagged) —
    so that no run depends on which strings the random documents happened to draw"""
    d = M.ProvDocument()
    d.add_namespace(EX)
    for i, s_ in enumerate(STRINGS):
        d.entity(EX["s%d" % i], [(EX["k"], s_), ("prov:label", s_), (EX["k"], M.Literal(s_, langtag="fr"))])
    b = d.bundle(EX["sb"])
    for i, s_ in enumerate(STRINGS):
        b.agent(EX["t%d" % i], [("prov:label", M.Literal(s_, langtag="en-gb")), (EX["k"], s_)])
    return d


def dense_doc():
    """one fixed document whose serialisation is far longer than any stream buffer and consists almost only of 2-, 3- and
    4-byte characters: wherever a copy is cut into blocks, a character is cut too"""
    d = M.ProvDocument()
    d.add_namespace(EX)
    for i, unit in enumerate(("ファイル", "é", "\U0001F600", "ü" + "語")):
        d.entity(EX["dense%d" % i], [(EX["note"], unit * (9000 // len(unit) + i)), ("prov:label", unit * 700)])
    return d
