import sys
from harness import corr, impl as I, common, progs
from harness.sexp import dumps, loads
seed=int(sys.argv[1]); count=int(sys.argv[2]); profile=sys.argv[3]; which=sys.argv[4] if len(sys.argv)>4 else "dis"
res = corr.generate_many(seed, count, (5, 25), profile)
ok = [(o, b) for st, o, b in res if st == "ok"]
lines = corr.model_run([o for o, _ in ok])
shown=0
for (ops, obs), line in zip(ok, lines):
    m = loads(line)
    if which=="ood":
        for i,x in enumerate(m):
            if x=="out-of-domain":
                print("OOD at", dumps(ops[i])[:600]); print("  impl:", dumps(obs[i])[:300]); shown+=1; break
    else:
        if corr.is_ood(line): continue
        d = corr.compare(ops, obs, line)
        if d:
            i=d[0]
            j=i
            while j>0 and ops[j][0]=="ObserveAll": j-=1
            print("== disagreement at op", i, "preceding op:", dumps(ops[j])[:800])
            print("   impl result:", dumps(obs[j])[:500]); print("   model result:", dumps(m[j])[:500])
            print("   diff:", d[1][:1200])
            shown+=1
    if shown>=int(sys.argv[5] if len(sys.argv)>5 else 3): break
